//go:build verif

package h2

import (
	"bytes"
	"net/url"

	"golang.org/x/net/http2"
	"golang.org/x/net/http2/hpack"

	"github.com/google/martian/v3/zzverif/vf"
)

func zzframeBytes(f func(fr *http2.Framer)) []byte {
	var b bytes.Buffer
	fr := http2.NewFramer(&b, nil)
	f(fr)
	return b.Bytes()
}

func zzheaderBlock() []byte {
	var b bytes.Buffer
	e := hpack.NewEncoder(&b)
	e.WriteField(hpack.HeaderField{Name: ":method", Value: "GET"})
	e.WriteField(hpack.HeaderField{Name: ":path", Value: "/"})
	return b.Bytes()
}

// VerifC10Terminate: an HTTP/2 relay session in one of several states is hit
// by one terminating event; Config.Proxy must return, the upstream connection
// it dialled must be closed, and once the caller has closed the client
// connection no goroutine of the session may remain.
func VerifC10Terminate() {
	client, server := zznewEndpointConn("client"), zznewEndpointConn("server")
	vf.TLSDialTarget(server)
	closing := make(chan bool)
	cfg := &Config{}
	returned := false
	go func() {
		cfg.Proxy(closing, client, &url.URL{Scheme: "https", Host: "origin:443"})
		returned = true
		// the caller (the proxy's connection handler) closes the client connection afterwards
		client.Close()
	}()
	// session state
	var gate chan struct{}
	state := vf.Choice("state", 5)
	if state == 4 {
		// the session ends while the connection preface is still being exchanged, after the
		// upstream connection has been dialled
		switch vf.Choice("preface-fault", 4) {
		case 0:
			client.endpointCloses()
		case 1:
			client.send(connectionPreface[:10])
			client.endpointCloses()
		case 2:
			client.send([]byte("GET / HTTP/1.1\r\nHost: x\r\n\r\n")[:24])
		case 3:
			server.failWrites = true
			client.send(connectionPreface)
		}
		vf.Quiesce()
		vf.Assert(returned, "relay-call-returns")
		vf.Assert(server.closed, "upstream-connection-closed-on-return")
		if returned {
			vf.Assert(vf.Goroutines() <= 1, "no-session-goroutine-remains")
		}
		vf.Reach("preface")
		vf.Reach("done")
		return
	}
	client.send(connectionPreface)
	vf.Quiesce()
	base := vf.Goroutines()

	switch state {
	case 1: // mid-stream: a request has been forwarded
		client.send(zzframeBytes(func(fr *http2.Framer) {
			fr.WriteHeaders(http2.HeadersFrameParam{StreamID: 1, BlockFragment: zzheaderBlock(), EndHeaders: true})
		}))
	case 2: // DATA blocked behind a zero stream window
		server.send(zzframeBytes(func(fr *http2.Framer) {
			fr.WriteSettings(http2.Setting{ID: http2.SettingInitialWindowSize, Val: 0})
		}))
		vf.Quiesce()
		client.send(zzframeBytes(func(fr *http2.Framer) {
			fr.WriteHeaders(http2.HeadersFrameParam{StreamID: 1, BlockFragment: zzheaderBlock(), EndHeaders: true})
			fr.WriteData(1, false, []byte("blocked"))
		}))
	case 3: // the output channel towards the server is full: its writer is held in a write the
		// server is slow to take, and the reader is held pushing the rest of a burst of queued frames
		gate = make(chan struct{})
		server.gate = gate
		vf.FixedSchedule(true) // filling the channel: one schedule; the event phase explores them all
		client.send(zzframeBytes(func(fr *http2.Framer) {
			fr.WriteHeaders(http2.HeadersFrameParam{StreamID: 1, BlockFragment: zzheaderBlock(), EndHeaders: true})
			for i := 0; i < 40; i++ { // well above the capacity of the output channel
				fr.WriteData(1, false, []byte{byte(i)})
			}
		}))
	}
	vf.Quiesce()
	if state == 3 && vf.Param("all-schedules") == 1 {
		vf.FixedSchedule(false)
	}

	// the terminating event
	nEvents := 7
	if state == 2 {
		nEvents = 8
	}
	failLate := false
	event := vf.Choice("event", nEvents)
	switch event {
	case 0:
		client.endpointCloses()
	case 1:
		server.endpointCloses()
	case 2: // a write towards the server fails
		server.failWrites = true
		client.send(zzframeBytes(func(fr *http2.Framer) { fr.WritePing(false, [8]byte{9}) }))
	case 3: // a write towards the client fails
		client.failWrites = true
		server.send(zzframeBytes(func(fr *http2.Framer) { fr.WritePing(false, [8]byte{9}) }))
	case 4: // protocol error: garbage instead of a frame, from either side
		garbage := []byte{0, 0, 5, 4, 0, 0, 0, 0, 0, 1, 2, 3, 4, 5} // a SETTINGS frame whose length is not a multiple of 6
		if vf.Choice("garbage-from-server", 2) == 1 {
			server.send(garbage)
		} else {
			client.send(garbage)
		}
	case 5:
		close(closing)
	case 6: // the only write towards the client that fails is the window credit for DATA it sent
		client.failWrites = true
		client.send(zzframeBytes(func(fr *http2.Framer) {
			fr.WriteHeaders(http2.HeadersFrameParam{StreamID: 5, BlockFragment: zzheaderBlock(), EndHeaders: true})
			fr.WriteData(5, false, []byte("x"))
		}))
	case 7: // (state 2) the server is slow to take a relayed PING; meanwhile it opens the stream
		// window, so the held-back DATA is handed to the writer of the same direction, which now
		// waits for the PING write to finish; that write then fails
		gate = make(chan struct{})
		server.gate = gate
		client.send(zzframeBytes(func(fr *http2.Framer) { fr.WritePing(false, [8]byte{9}) }))
		vf.Quiesce()
		server.send(zzframeBytes(func(fr *http2.Framer) { fr.WriteWindowUpdate(1, 1000) }))
		failLate = true
	}
	vf.Quiesce()
	if failLate {
		server.failWrites = true
	}
	if gate != nil {
		// the slow server takes (or, for events 2 and 7, refuses) the pending write at last
		close(gate)
		vf.Quiesce()
	}

	vf.Assert(returned, "relay-call-returns")
	vf.Assert(server.closed, "upstream-connection-closed-on-return")
	if returned {
		left := vf.Goroutines()
		vf.Assert(left <= 1, "no-session-goroutine-remains")
		_ = base
	}
	vf.Reach("done")
}

// VerifC10Backlog: more DATA frames than the output channel holds are blocked
// behind a zero stream window; the client goes away and, at the same moment,
// the server opens the window, so the server->client direction may push the
// whole backlog into the output queue of a direction whose writer has gone.
func VerifC10Backlog() {
	client, server := zznewEndpointConn("client"), zznewEndpointConn("server")
	vf.TLSDialTarget(server)
	closing := make(chan bool)
	cfg := &Config{}
	returned := false
	go func() {
		cfg.Proxy(closing, client, &url.URL{Scheme: "https", Host: "origin:443"})
		returned = true
		client.Close()
	}()
	vf.FixedSchedule(true) // set-up phase: one schedule
	client.send(connectionPreface)
	server.send(zzframeBytes(func(fr *http2.Framer) {
		fr.WriteSettings(http2.Setting{ID: http2.SettingInitialWindowSize, Val: 0})
	}))
	vf.Quiesce()
	n := vf.Param("frames")
	if !vf.Symbolic() {
		n = 60 // native replay: a backlog large enough that the writer almost surely exits before it is drained
	}
	client.send(zzframeBytes(func(fr *http2.Framer) {
		fr.WriteHeaders(http2.HeadersFrameParam{StreamID: 1, BlockFragment: zzheaderBlock(), EndHeaders: true})
		for i := 0; i < n; i++ {
			fr.WriteData(1, false, []byte{byte(i)})
		}
	}))
	vf.Quiesce()
	if vf.Symbolic() {
		vf.FixedSchedule(false) // the race: every schedule
		client.endpointCloses()
		server.send(zzframeBytes(func(fr *http2.Framer) { fr.WriteWindowUpdate(1, 1000) }))
		vf.Quiesce()
	} else {
		// Native replay cannot choose the schedule; it steers the same race through the
		// endpoints instead: writes towards the server are held back so that the backlog
		// piles up in the output queue while the client goes away, then released.
		gate := make(chan struct{})
		server.gate = gate
		server.send(zzframeBytes(func(fr *http2.Framer) { fr.WriteWindowUpdate(1, 1000) }))
		vf.Quiesce()
		client.endpointCloses()
		vf.Quiesce()
		close(gate)
		for i := 0; i < 40 && !returned; i++ {
			vf.Quiesce()
		}
	}
	vf.Assert(returned, "relay-call-returns")
	vf.Assert(server.closed, "upstream-connection-closed-on-return")
	if returned {
		vf.Assert(vf.Goroutines() <= 1, "no-session-goroutine-remains")
	}
	vf.Reach("done")
}
