//go:build verif

package mitm

import (
	"bytes"
	"crypto/rsa"
	"crypto/tls"
	"crypto/x509"
	"crypto/x509/pkix"
	"net"
	"time"

	"github.com/google/martian/v3/zzverif/vf"
)

func zznewTestConfig() *Config {
	if vf.Symbolic() {
		// the engine models crypto/x509: build the configuration around a model CA
		ca := &x509.Certificate{Subject: pkix.Name{CommonName: "ca"}, IsCA: true, Raw: []byte("CA-DER")}
		caKey := &rsa.PrivateKey{}
		vf.CAKey(ca, caKey)
		c, err := NewConfig(ca, caKey)
		if err != nil {
			panic(err)
		}
		return c
	}
	ca, priv, err := NewAuthority("verif ca", "verif", time.Hour)
	if err != nil {
		panic(err)
	}
	c, err := NewConfig(ca, priv)
	if err != nil {
		panic(err)
	}
	c.SetValidity(2 * time.Second) // see VerifC06Cache
	return c
}

// hostCase is a requested host: what the client names, and what the
// certificate must be valid for (port stripped).
type zzhostCase struct {
	requested string
	name      string
	isIP      bool
}

func zzsymLabel(name string, n int) string {
	s := vf.String(name, n)
	for i := 0; i < len(s); i++ {
		c := s[i]
		vf.Assume((c >= 'a' && c <= 'z') || (c >= 'A' && c <= 'Z') || (c >= '0' && c <= '9'))
	}
	return s
}

func zzpickHost() zzhostCase {
	switch vf.Choice("host-kind", 6) {
	case 0: // DNS name, symbolic letters in any case
		h := zzsymLabel("label", 2) + ".Ex"
		return zzhostCase{h, h, false}
	case 1:
		h := zzsymLabel("label", 1) + ".test"
		return zzhostCase{h + ":443", h, false}
	case 2:
		return zzhostCase{"10.0.0.1", "10.0.0.1", true}
	case 3:
		return zzhostCase{"10.0.0.1:8443", "10.0.0.1", true}
	case 4:
		return zzhostCase{"[::1]:443", "::1", true}
	default:
		return zzhostCase{"::1", "::1", true}
	}
}

func zzcheckCert(c *Config, tc *tls.Certificate, h zzhostCase, tag string) {
	vf.Assert(tc != nil && tc.Leaf != nil, tag+":certificate-returned")
	if tc == nil || tc.Leaf == nil {
		return
	}
	_, err := tc.Leaf.Verify(x509.VerifyOptions{DNSName: h.name, Roots: c.roots})
	vf.Assert(err == nil, tag+":verifies-for-the-requested-host-under-the-configured-ca-now")
	if h.isIP {
		vf.Assert(len(tc.Leaf.IPAddresses) == 1 && tc.Leaf.IPAddresses[0].Equal(net.ParseIP(h.name)) && len(tc.Leaf.DNSNames) == 0, tag+":ip-literal-gets-an-ip-san")
	} else {
		vf.Assert(len(tc.Leaf.DNSNames) == 1 && tc.Leaf.DNSNames[0] == h.name && len(tc.Leaf.IPAddresses) == 0, tag+":dns-name-gets-a-dns-san-without-port")
	}
	vf.Assert(len(tc.Leaf.Subject.Organization) == 1 && tc.Leaf.Subject.Organization[0] == c.org, tag+":carries-the-configured-organization")
	vf.Assert(tc.PrivateKey == interface{}(c.priv), tag+":backed-by-the-proxys-key")
	vf.Assert(len(tc.Certificate) == 2 && bytes.Equal(tc.Certificate[1], c.ca.Raw), tag+":chain-ends-in-the-configured-ca")
}

// VerifC06Issue: every host spelling, via SNI or via the fallback host.
func VerifC06Issue() {
	c := zznewTestConfig()
	// the configured lifetime of forged certificates, from the default to many years: whatever it
	// is, a certificate must be valid at the moment it is issued for a handshake
	c.SetValidity([]time.Duration{time.Hour, 20 * time.Hour, 400 * 24 * time.Hour, 3 * 365 * 24 * time.Hour, 10 * 365 * 24 * time.Hour}[vf.Choice("validity", 5)])
	h := zzpickHost()
	var tc *tls.Certificate
	var err error
	vf.WatchOn()
	if vf.Choice("via-sni", 2) == 1 && !h.isIP {
		tc, err = c.TLS().GetCertificate(&tls.ClientHelloInfo{ServerName: h.name})
	} else {
		tc, err = c.TLSForHost(h.requested).GetCertificate(&tls.ClientHelloInfo{})
	}
	vf.WatchOff()
	vf.Assert(err == nil, "issue:no-error")
	zzcheckCert(c, tc, h, "issue")
	vf.Assert(c.certs[h.name] == tc, "issue:cached-under-the-requested-name")
	vf.Reach("done")
}

// VerifC06NoName: neither SNI nor a fallback host: refused, nothing issued.
func VerifC06NoName() {
	c := zznewTestConfig()
	tc, err := c.TLS().GetCertificate(&tls.ClientHelloInfo{ServerName: ""})
	vf.Assert(err != nil && tc == nil, "no-name:handshake-refused")
	vf.Assert(len(c.certs) == 0, "no-name:nothing-issued")
	vf.Reach("done")
}

// VerifC06Cache: two requests for the same or for different names with time
// passing in between (up to and beyond the validity window).
func VerifC06Cache() {
	c := zznewTestConfig()
	// one configuration serves DNS names and IP literals in any sequence
	dns, ip := zzhostCase{"a.example:443", "a.example", false}, zzhostCase{"10.0.0.1:443", "10.0.0.1", true}
	h1, other := dns, ip
	if vf.Choice("first-is-ip-literal", 2) == 1 {
		h1, other = ip, dns
	}
	h2 := h1
	switch vf.Choice("second-name-differs", 3) {
	case 1:
		h2 = zzhostCase{"b.example:443", "b.example", false}
	case 2:
		h2 = other
	}
	vf.WatchOn()
	t1, err1 := c.TLSForHost(h1.requested).GetCertificate(&tls.ClientHelloInfo{})
	vf.WatchOff()
	vf.Assert(err1 == nil, "cache:first-issued")
	zzcheckCert(c, t1, h1, "cache-first")
	// time passes: within the window, just before its end, at its end, just after, long after
	steps := []int64{0, 1800, 3500, 3700, 7200, 360000} // the model clock also advances one second per reading
	dt := steps[vf.Choice("elapsed", len(steps))]
	vf.AdvanceClock(dt)
	if !vf.Symbolic() {
		// native replay: the real clock cannot be advanced, so the same scenario is played
		// with a validity of 2 s in place of 1 h and a proportional wait (at most 5 s)
		wait := time.Duration(dt) * 2 * time.Second / 3600
		if wait > 5*time.Second {
			wait = 5 * time.Second
		}
		time.Sleep(wait)
	}
	stillValid := true
	if t1 != nil && t1.Leaf != nil {
		_, e := t1.Leaf.Verify(x509.VerifyOptions{DNSName: h1.name, Roots: c.roots})
		stillValid = e == nil
	}
	vf.WatchOn()
	t2, err2 := c.TLSForHost(h2.requested).GetCertificate(&tls.ClientHelloInfo{})
	vf.WatchOff()
	vf.Assert(err2 == nil, "cache:second-issued")
	zzcheckCert(c, t2, h2, "cache-second")
	if h2.name == h1.name {
		if stillValid {
			vf.Assert(t2 == t1, "cache:reused-while-it-still-verifies")
			vf.Reach("reused")
		} else {
			vf.Assert(t2 != t1, "cache:fresh-certificate-once-the-window-has-passed")
			vf.Reach("reissued")
		}
	} else {
		vf.Assert(t2 != t1, "cache:never-a-certificate-issued-for-a-different-name")
	}
	// cache invariant: the entry under key k was issued for k
	for k, v := range c.certs {
		if kip := net.ParseIP(k); kip != nil {
			vf.Assert(v.Leaf != nil && len(v.Leaf.IPAddresses) == 1 && v.Leaf.IPAddresses[0].Equal(kip) && len(v.Leaf.DNSNames) == 0, "cache:entry-under-k-was-issued-for-k")
		} else {
			vf.Assert(v.Leaf != nil && len(v.Leaf.DNSNames) == 1 && v.Leaf.DNSNames[0] == k && len(v.Leaf.IPAddresses) == 0, "cache:entry-under-k-was-issued-for-k")
		}
	}
	vf.Reach("done")
}
