//go:build verif

package martian

import (
	"bytes"
	"errors"
	"net"
	"net/http"
	"runtime"
	"sync"

	"github.com/google/martian/v3/zzverif/vf"
)

const (
	zzptIdle = iota
	zzptMidHead
	zzptReqMod
	zzptRoundTrip
	zzptResMod
	zzptWriting
	zzptSecondHead // the head of a second request is partly buffered, the rest has not arrived
	zzptNever
)

// shutter requests shutdown (in its own goroutine, as a caller of Close would)
// when the connection handler reaches the chosen progress point.
type zzshutter struct {
	p         *Proxy
	at        int
	fired     bool
	returned  bool // Close has returned
	reqStarts int  // request modifier invocations
	lateStart bool // a request modifier started after Close had returned
	afterObs  []bool
}

func (s *zzshutter) hit(pt int) {
	if pt != s.at || s.fired {
		return
	}
	s.fired = true
	go func() {
		s.p.Close()
		s.returned = true
	}()
	// let the shutdown goroutine run until it blocks waiting for the handlers
	vf.Quiesce()
}

func (s *zzshutter) ModifyRequest(req *http.Request) error {
	s.reqStarts++
	if s.returned {
		s.lateStart = true
	}
	s.hit(zzptReqMod)
	return nil
}

func (s *zzshutter) ModifyResponse(res *http.Response) error {
	s.hit(zzptResMod)
	return nil
}

// hookConn is a clientConn whose reads and writes can trigger the shutdown.
type zzhookConn struct {
	*zzclientConn
	s       *zzshutter
	readPt  []int // progress point represented by the k-th Read
	reads   int
	wrotePt bool
	closeMu sync.Mutex
}

func (c *zzhookConn) Read(p []byte) (int, error) {
	if c.reads < len(c.readPt) {
		c.s.hit(c.readPt[c.reads])
	}
	c.reads++
	return c.zzclientConn.Read(p)
}

func (c *zzhookConn) Write(p []byte) (int, error) {
	if !c.wrotePt {
		c.wrotePt = true
		c.s.hit(zzptWriting)
	}
	return c.zzclientConn.Write(p)
}

// Closing a real connection is not one indivisible step (it takes the descriptor's lock first):
// the model connection has a scheduling point before it counts as closed, so that "shutdown
// returned while a handler was still about to close its connection" is a schedule the engine
// explores.
func (c *zzhookConn) Close() error {
	c.closeMu.Lock()
	c.closeMu.Unlock()
	return c.zzclientConn.Close()
}

type zzslowCloseConn struct {
	*zzclientConn
	closeMu sync.Mutex
}

func (c *zzslowCloseConn) Close() error {
	c.closeMu.Lock()
	c.closeMu.Unlock()
	return c.zzclientConn.Close()
}

// VerifC07Handler: one connection, one or two exchanges, shutdown requested at
// each of the six progress points of the first exchange (or never).
func VerifC07Handler() {
	at := vf.Choice("shutdown-at", 8)
	two := vf.Choice("second-request-pipelined", 2) == 1
	if at == zzptSecondHead {
		two = false
	}
	p := NewProxy()
	s := &zzshutter{p: p, at: at}
	r1 := zzreqSpec{method: "GET", path: "/one", hval: "a"}.wire()
	r2 := zzreqSpec{method: "GET", path: "/two", hval: "b"}.wire()
	var segs [][]byte
	var readPt []int
	switch {
	case at == zzptMidHead:
		segs = [][]byte{r1[:10], r1[10:]}
		readPt = []int{zzptNever, zzptMidHead}
	case at == zzptSecondHead:
		// the first read brings request one and ten bytes of request two; the proxy's next
		// read (for the rest of that head) finds the client silent
		segs = [][]byte{append(append([]byte(nil), r1...), r2[:10]...)}
		readPt = []int{zzptNever, zzptSecondHead}
	default:
		segs = [][]byte{r1}
		readPt = []int{zzptIdle}
	}
	if two {
		segs[len(segs)-1] = append(append([]byte(nil), segs[len(segs)-1]...), r2...)
	}
	cc := zznewClientConn("client", false, segs...) // the client stays connected and idle afterwards
	conn := &zzhookConn{zzclientConn: cc, s: s, readPt: readPt}
	o := &zzorigin{}
	o.answer = func(i int, req *http.Request) (*http.Response, error) {
		if i == 0 {
			s.hit(zzptRoundTrip)
		}
		return zzrawResponse(zzresSpec{status: 200, hval: "o", body: []byte("body")}.wire(), req)
	}
	p.SetRoundTripper(o)
	p.SetRequestModifier(s)
	p.SetResponseModifier(s)
	// the connection is served the way every connection is: Serve accepts it from a listener
	// (which then reports that it is closed) and starts its handler
	go p.Serve(&zzoneConnListener{conn: conn})
	if at == zzptNever {
		// no shutdown during the exchanges: request it once everything is idle
		vf.Quiesce()
		s.fired = true
		p.Close()
		s.returned = true
	}
	vf.Quiesce()

	if at == zzptSecondHead && s.fired {
		vf.Reach("second-head")
	}
	vf.Assert(s.fired, "shutdown-was-requested")
	vf.Assert(s.returned, "shutdown-returns")
	// (a handler closes its connection when it finishes, just before it signs off)
	vf.Assert(cc.closed >= 1, "connection-closed-when-shutdown-returned")
	vf.Assert(!s.lateStart, "no-request-modifier-starts-after-shutdown-returned")
	got := zzclientView(cc.out.Bytes(), []string{"GET", "GET"})
	vf.Assert(len(got) == s.reqStarts, "every-exchange-whose-request-modifier-started-gets-its-response")
	for i, g := range got {
		vf.Assert(g.ok && g.status == 200 && string(g.body) == "body", "response-complete")
		_ = i
	}
	// the response written once shutdown has been observed is marked close
	if len(got) > 0 && at <= zzptResMod {
		last := got[len(got)-1]
		vf.Assert(last.close, "last-response-marked-connection-close")
		if at <= zzptReqMod && len(got) == 1 {
			vf.Reach("closed-after-first")
		}
	}
	vf.Reach("done")
}

// scriptListener hands out its connections, then blocks until closed.
type zzscriptListener struct {
	conns   []net.Conn
	closedc chan struct{}
	closed  bool
	accepts int
	calls   int
	hook    func() // native replay: called when Serve comes back to Accept
}

func (l *zzscriptListener) Accept() (net.Conn, error) {
	l.calls++
	if l.hook != nil && l.calls == len(l.conns)+1 {
		l.hook()
	}
	if l.closed {
		return nil, net.ErrClosed
	}
	if l.accepts < len(l.conns) {
		c := l.conns[l.accepts]
		l.accepts++
		return c, nil
	}
	<-l.closedc
	return nil, net.ErrClosed
}
func (l *zzscriptListener) Close() error {
	if !l.closed {
		l.closed = true
		close(l.closedc)
	}
	return nil
}
func (l *zzscriptListener) Addr() net.Addr { return zzfakeAddr("10.0.0.2:8080") }

var zzerrUnused = errors.New("unused")

// VerifC07Serve: Serve accepts 1..K idle connections while Close is called
// concurrently, under every schedule within the preemption bound.
func VerifC07Serve() {
	k := 1 + vf.Choice("connections", vf.Param("connections"))
	p := NewProxy()
	s := &zzshutter{p: p, at: zzptNever}
	p.SetRequestModifier(s)
	p.SetResponseModifier(s)
	o := &zzorigin{}
	o.answer = func(i int, req *http.Request) (*http.Response, error) {
		return zzrawResponse(zzresSpec{status: 200, hval: "o", body: []byte("body")}.wire(), req)
	}
	p.SetRoundTripper(o)
	var ccs []*zzclientConn
	l := &zzscriptListener{closedc: make(chan struct{})}
	for i := 0; i < k; i++ {
		var cc *zzclientConn
		if vf.Choice("client-sends-a-request", 2) == 1 {
			cc = zznewClientConn("client", false, zzreqSpec{method: "GET", path: "/x", hval: "a"}.wire())
		} else {
			cc = zznewClientConn("client", false)
		}
		ccs = append(ccs, cc)
		l.conns = append(l.conns, &zzslowCloseConn{zzclientConn: cc})
	}
	closeReturned := make(chan struct{})
	if vf.Symbolic() {
		go p.Serve(l)
		vf.Yield()
		p.Close()
	} else {
		// Native replay cannot choose the schedule. On one OS thread the handler
		// goroutine started by Serve has not run yet when Serve comes back to
		// Accept; requesting shutdown from there reproduces the interleaving in
		// which Close runs between Accept and the handler's first instruction.
		runtime.GOMAXPROCS(1)
		l.hook = func() {
			p.Close()
			accepted := l.calls - 1
			for i := 0; i < accepted; i++ {
				vf.Assert(ccs[i].closed >= 1, "every-accepted-connection-closed-when-shutdown-returns")
			}
			close(closeReturned)
		}
		go p.Serve(l)
		<-closeReturned
	}
	// What must hold at the moment Close returns. A connection counts as accepted by the
	// proxy once Serve has come back to Accept after taking it (between Accept returning and
	// that point the proxy has had no chance to record it).
	accepted := l.calls - 1
	for i := 0; i < accepted; i++ {
		vf.Assert(ccs[i].closed >= 1, "every-accepted-connection-closed-when-shutdown-returns")
	}
	starts := s.reqStarts
	l.Close()
	vf.Quiesce()
	vf.Assert(s.reqStarts == starts, "no-request-modifier-starts-after-shutdown-returned")
	for i := 0; i < l.accepts; i++ {
		vf.Assert(ccs[i].closed >= 1, "connections-accepted-during-shutdown-are-closed")
		got := zzclientView(ccs[i].out.Bytes(), []string{"GET"})
		for _, g := range got {
			vf.Assert(g.ok && g.status == 200 && bytes.Equal(g.body, []byte("body")), "started-exchange-completed")
		}
	}
	vf.Reach("done")
}

// VerifC07ServeDeep: the same scenario with one connection and a larger preemption bound
// (two more switches at non-blocking synchronisation points), which reaches "shutdown returns
// between a handler's last two steps".
func VerifC07ServeDeep() { VerifC07Serve() }
