//go:build verif

package h2

import (
	"bytes"

	"golang.org/x/net/http2"
	"golang.org/x/net/http2/hpack"

	"github.com/google/martian/v3/zzverif/vf"
)

const (
	zzkHeaders = iota
	zzkData
	zzkRST
	zzkPriority
	zzkPush
)

type zzitem struct {
	kind    int
	end     bool
	data    []byte
	hdrs    []hpack.HeaderField
	code    uint32
	prio    http2.PriorityParam
	hasPrio bool
	promise uint32
}

// endpointPair is one direction of traffic: a sending endpoint (with its own
// HPACK encoder state) and the receiving endpoint on the other side of the
// relay (with its own HPACK decoder state, fed in wire order).
type zzendpointPair struct {
	w      *zzworld
	c2s    bool
	enc    *hpack.Encoder
	encBuf bytes.Buffer
	dec    *hpack.Decoder
	sent   map[uint32][]zzitem
	recv   map[uint32][]zzitem
	conn   []string // connection-level frames received, rendered
	// receive-side reassembly
	curBlock  bytes.Buffer
	curItem   *zzitem
	curStream uint32
	// knownHPACK: the scenario is the one of known finding C08-hpack-encode-order; only what
	// the receiver's HPACK decoder yields is attributed to it, everything else (frame kinds,
	// order, DATA bytes, END_STREAM, reset codes) is still checked as usual.
	knownHPACK bool
}

func (p *zzendpointPair) hpackAssert(c bool, label string) {
	if p.knownHPACK {
		vf.Known("C08-hpack-encode-order", true)
		vf.Assert(c, label)
		vf.KnownClear("C08-hpack-encode-order")
		return
	}
	vf.Assert(c, label)
}

func zznewPair(w *zzworld, c2s bool) *zzendpointPair {
	p := &zzendpointPair{w: w, c2s: c2s, sent: map[uint32][]zzitem{}, recv: map[uint32][]zzitem{}}
	p.enc = hpack.NewEncoder(&p.encBuf)
	p.dec = hpack.NewDecoder(4096, nil)
	return p
}

func (p *zzendpointPair) writer() *http2.Framer {
	if p.c2s {
		return p.w.cw
	}
	return p.w.sw
}

func (p *zzendpointPair) pump() error {
	if p.c2s {
		return p.w.pumpClient()
	}
	return p.w.pumpServer()
}

func (p *zzendpointPair) encode(h []hpack.HeaderField) []byte {
	p.encBuf.Reset()
	for _, f := range h {
		p.enc.WriteField(f)
	}
	return append([]byte(nil), p.encBuf.Bytes()...)
}

var zzheaderSets = [][]hpack.HeaderField{
	{{Name: ":method", Value: "GET"}, {Name: ":path", Value: "/a"}, {Name: "x-custom", Value: "v1"}},
	{{Name: "x-custom", Value: "v1"}, {Name: "x-other", Value: "v2"}},
}

// sendHeaders writes a header block as HEADERS [+ CONTINUATION...] cut at the
// given points.
func (p *zzendpointPair) sendHeaders(id uint32, set int, end bool, prio *http2.PriorityParam, cuts int, padLen int) {
	h := zzheaderSets[set]
	block := p.encode(h)
	var frags [][]byte
	switch {
	case cuts == 0 || len(block) < 2:
		frags = [][]byte{block}
	case cuts == 1:
		frags = [][]byte{block[:1], block[1:]}
	default:
		if len(block) < 3 {
			frags = [][]byte{block[:1], block[1:]}
		} else {
			frags = [][]byte{block[:1], block[1 : len(block)-1], block[len(block)-1:]}
		}
	}
	hp := http2.HeadersFrameParam{StreamID: id, BlockFragment: frags[0], EndStream: end, EndHeaders: len(frags) == 1, PadLength: uint8(padLen)}
	it := zzitem{kind: zzkHeaders, end: end, hdrs: h}
	if prio != nil {
		hp.Priority = *prio
		it.prio, it.hasPrio = *prio, true
	}
	vf.Assert(p.writer().WriteHeaders(hp) == nil, "harness-write-headers")
	for i := 1; i < len(frags); i++ {
		vf.Assert(p.writer().WriteContinuation(id, i == len(frags)-1, frags[i]) == nil, "harness-write-continuation")
	}
	p.sent[id] = append(p.sent[id], it)
}

func (p *zzendpointPair) sendData(id uint32, data []byte, end bool, padded bool, padLen int) {
	var err error
	if padded {
		err = p.writer().WriteDataPadded(id, end, data, make([]byte, padLen))
	} else {
		err = p.writer().WriteData(id, end, data)
	}
	vf.Assert(err == nil, "harness-write-data")
	p.sent[id] = append(p.sent[id], zzitem{kind: zzkData, end: end, data: data})
}

// collect parses everything the relay delivered to the receiving endpoint.
func (p *zzendpointPair) collect() {
	var rd *http2.Framer
	var buf *bytes.Buffer
	if p.c2s {
		rd, buf = p.w.sr, &p.w.serverOut
	} else {
		rd, buf = p.w.cr, &p.w.clientOut
	}
	for buf.Len() > 0 {
		f, err := rd.ReadFrame()
		vf.Assert(err == nil, "delivered-bytes-parse-as-frames")
		if err != nil {
			return
		}
		if p.curItem != nil {
			c, ok := f.(*http2.ContinuationFrame)
			vf.Assert(ok && c.StreamID == p.curStream, "header-block-contiguous")
			if !ok {
				return
			}
			p.curBlock.Write(c.HeaderBlockFragment())
			if c.HeadersEnded() {
				p.finishBlock()
			}
			continue
		}
		switch f := f.(type) {
		case *http2.HeadersFrame:
			it := &zzitem{kind: zzkHeaders, end: f.StreamEnded()}
			if f.HasPriority() {
				it.prio, it.hasPrio = f.Priority, true
			}
			p.curItem, p.curStream = it, f.StreamID
			p.curBlock.Reset()
			p.curBlock.Write(f.HeaderBlockFragment())
			if f.HeadersEnded() {
				p.finishBlock()
			}
		case *http2.PushPromiseFrame:
			p.curItem, p.curStream = &zzitem{kind: zzkPush, promise: f.PromiseID}, f.StreamID
			p.curBlock.Reset()
			p.curBlock.Write(f.HeaderBlockFragment())
			if f.HeadersEnded() {
				p.finishBlock()
			}
		case *http2.DataFrame:
			p.recv[f.StreamID] = append(p.recv[f.StreamID], zzitem{kind: zzkData, end: f.StreamEnded(), data: append([]byte(nil), f.Data()...)})
		case *http2.RSTStreamFrame:
			p.recv[f.StreamID] = append(p.recv[f.StreamID], zzitem{kind: zzkRST, code: uint32(f.ErrCode)})
		case *http2.PriorityFrame:
			p.recv[f.StreamID] = append(p.recv[f.StreamID], zzitem{kind: zzkPriority, prio: f.PriorityParam})
		case *http2.WindowUpdateFrame:
			// credit returned by the relay to this endpoint's peer direction: not part of the stream contents
		default:
			// SETTINGS / PING / GOAWAY are checked by the connection-level harness
		}
	}
}

func (p *zzendpointPair) finishBlock() {
	fields, err := p.dec.DecodeFull(p.curBlock.Bytes())
	p.hpackAssert(err == nil, "header-block-decodes-under-receiver-hpack-state")
	p.curItem.hdrs = fields
	p.recv[p.curStream] = append(p.recv[p.curStream], *p.curItem)
	p.curItem = nil
}

func zzsameFields(a, b []hpack.HeaderField) bool {
	if len(a) != len(b) {
		return false
	}
	for i := range a {
		if a[i].Name != b[i].Name || a[i].Value != b[i].Value {
			return false
		}
	}
	return true
}

func (p *zzendpointPair) compare(tag string, streams []uint32) {
	vf.Assert(p.curItem == nil, tag+":no-unterminated-header-block")
	for _, id := range streams {
		// DATA is compared as a byte stream with its end-of-stream position, not frame by frame:
		// the property fixes the bytes and where the stream ends, not how the relay cuts them
		s, r := zzcoalesceData(p.sent[id]), zzcoalesceData(p.recv[id])
		vf.Assert(len(s) == len(r), tag+":same-number-of-stream-frames")
		if len(s) != len(r) {
			return
		}
		for i := range s {
			vf.Assert(s[i].kind == r[i].kind, tag+":same-frame-kind-in-order")
			if s[i].kind != r[i].kind {
				return
			}
			switch s[i].kind {
			case zzkHeaders:
				p.hpackAssert(zzsameFields(s[i].hdrs, r[i].hdrs), tag+":header-fields-equal")
				vf.Assert(s[i].end == r[i].end, tag+":headers-end-stream-position")
				vf.Assert(s[i].hasPrio == r[i].hasPrio, tag+":headers-priority-presence")
				if s[i].hasPrio && r[i].hasPrio {
					vf.Assert(s[i].prio == r[i].prio, tag+":headers-priority-equal")
				}
			case zzkData:
				vf.Assert(bytes.Equal(s[i].data, r[i].data), tag+":data-bytes-equal")
				vf.Assert(s[i].end == r[i].end, tag+":data-end-stream-position")
			case zzkRST:
				vf.Assert(s[i].code == r[i].code, tag+":rst-code-equal")
			case zzkPriority:
				vf.Assert(s[i].prio == r[i].prio, tag+":priority-equal")
			case zzkPush:
				vf.Assert(s[i].promise == r[i].promise, tag+":promised-id-equal")
				vf.Assert(zzsameFields(s[i].hdrs, r[i].hdrs), tag+":push-header-fields-equal")
			}
		}
	}
}

// coalesceData merges every run of consecutive DATA items into one item carrying the
// concatenated bytes and the END_STREAM flag of the run's last frame (a frame after END_STREAM
// cannot exist, so the flag marks the position at which the stream ends).
func zzcoalesceData(items []zzitem) []zzitem {
	var out []zzitem
	for _, it := range items {
		if it.kind == zzkData && len(out) > 0 && out[len(out)-1].kind == zzkData && !out[len(out)-1].end {
			last := &out[len(out)-1]
			last.data = append(append([]byte(nil), last.data...), it.data...)
			last.end = it.end
			continue
		}
		out = append(out, it)
	}
	return out
}

func zzsymPriority(name string) *http2.PriorityParam {
	return &http2.PriorityParam{StreamDep: vf.Uint32(name+".dep") & 0x7fffffff, Exclusive: vf.Bool(name + ".excl"), Weight: vf.Uint8(name + ".weight")}
}

// VerifC08StreamLifecycle: one stream, in either direction: a header block
// (whole or cut into 2 or 3 frames, with or without priority, padded or not,
// with or without END_STREAM), then DATA frames with symbolic bytes (padded or
// not), then trailers or RST_STREAM.
func VerifC08StreamLifecycle() {
	w := zznewWorld(nil)
	p := zznewPair(w, vf.Choice("direction", 2) == 0)
	id := uint32(1)
	var prio *http2.PriorityParam
	if vf.Choice("priority", 2) == 1 {
		prio = zzsymPriority("prio")
		vf.Assume(!(prio.StreamDep == 0 && !prio.Exclusive && prio.Weight == 0)) // IsZero means "no priority" to the framer
	}
	endOnHeaders := vf.Choice("end-on-headers", 2) == 1
	p.sendHeaders(id, 0, endOnHeaders, prio, vf.Choice("cuts", 3), vf.Choice("pad", 2)*2)
	if !endOnHeaders {
		nd := vf.Choice("data-frames", 3)
		for i := 0; i < nd; i++ {
			n := vf.Choice("len", 2) * 2
			p.sendData(id, vf.Bytes("data", n), false, vf.Choice("padded", 2) == 1, 1)
		}
		switch vf.Choice("finish", 3) {
		case 0: // trailers
			p.sendHeaders(id, 1, true, nil, vf.Choice("cuts", 2), 0)
		case 1: // empty DATA with END_STREAM
			p.sendData(id, nil, true, false, 0)
		case 2: // reset
			code := vf.Uint32("rst")
			vf.Assert(p.writer().WriteRSTStream(id, http2.ErrCode(code)) == nil, "harness-write-rst")
			p.sent[id] = append(p.sent[id], zzitem{kind: zzkRST, code: code})
		}
	}
	vf.Assert(p.pump() == nil, "relay-accepts-frames")
	p.collect()
	p.compare("lifecycle", []uint32{id})
	vf.Reach("done")
}

// VerifC08BlockedInterleave: two streams; the receiver's stream window may be
// zero so that DATA is held back while trailers of the same stream and headers
// of another stream arrive; later a WINDOW_UPDATE releases the data.
func VerifC08BlockedInterleave() {
	w := zznewWorld(nil)
	p := zznewPair(w, true)
	blocked := vf.Choice("window-zero", 2) == 1
	win := 0
	if blocked {
		// the window that holds the 2-byte DATA frame back is exhausted (0) or merely too small (1)
		win = vf.Choice("blocking-window", 2)
		vf.Assert(w.sw.WriteSettings(http2.Setting{ID: http2.SettingInitialWindowSize, Val: uint32(win)}) == nil, "harness-write-settings")
		vf.Assert(w.pumpServer() == nil, "relay-accepts-settings")
	}
	p.sendHeaders(1, 0, false, nil, vf.Choice("cuts", 2), 0)
	p.sendData(1, vf.Bytes("data", 2), false, false, 0)
	trailersFirst := vf.Choice("trailers-before-other-stream", 2) == 1
	reset := vf.Choice("stream-1-ends-with-reset", 2) == 1
	finish1 := func() {
		if reset { // RST_STREAM behind the held-back DATA: both must still arrive, in that order
			code := vf.Uint32("rst")
			vf.Assert(p.writer().WriteRSTStream(1, http2.ErrCode(code)) == nil, "harness-write-rst")
			p.sent[1] = append(p.sent[1], zzitem{kind: zzkRST, code: code})
		} else {
			p.sendHeaders(1, 1, true, nil, 0, 0)
		}
	}
	if trailersFirst {
		finish1()
		p.sendHeaders(3, 1, true, nil, 0, 0)
	} else {
		p.sendHeaders(3, 1, true, nil, 0, 0)
		finish1()
	}
	vf.Assert(p.pump() == nil, "relay-accepts-frames")
	// Known finding: header blocks are HPACK-encoded when enqueued but sent after
	// flow-blocked DATA of their stream, so a block encoded later (another
	// stream) can reach the peer first and no longer decodes.
	p.knownHPACK = blocked && trailersFirst && !reset
	p.collect()
	if blocked {
		// a zero window holds back DATA (and what is queued behind it on that stream), not
		// frames without flow-control cost on a stream that has nothing queued
		vf.Assert(len(p.recv[3]) == 1, "header-block-of-another-stream-not-held-back-by-a-zero-window")
		vf.Assert(len(p.recv[1]) >= 1, "header-block-ahead-of-the-blocked-data-not-held-back")
		// the receiver opens the window with a WINDOW_UPDATE for the stream, or by raising
		// SETTINGS_INITIAL_WINDOW_SIZE
		if vf.Choice("released-by-settings", 2) == 1 {
			vf.Assert(w.sw.WriteSettings(http2.Setting{ID: http2.SettingInitialWindowSize, Val: 10}) == nil, "harness-write-settings")
		} else {
			vf.Assert(w.sw.WriteWindowUpdate(1, 10) == nil, "harness-write-window-update")
		}
		vf.Assert(w.pumpServer() == nil, "relay-accepts-window-update")
		p.collect()
	}
	p.compare("interleave", []uint32{1, 3})
	vf.Reach("done")
}

// VerifC08PushBehindData: a PUSH_PROMISE and then the trailers of the same stream arrive while
// DATA of that stream is held back by the receiver's window: both header blocks wait in the
// stream's queue (in the order they were encoded) and must still be the blocks that were sent
// when the window opens - a queued block may not share storage with a later one.
func VerifC08PushBehindData() {
	w := zznewWorld(nil)
	p := zznewPair(w, false)
	win := vf.Choice("blocking-window", 2)
	vf.Assert(w.cw.WriteSettings(http2.Setting{ID: http2.SettingInitialWindowSize, Val: uint32(win)}) == nil, "harness-write-settings")
	vf.Assert(w.pumpClient() == nil, "relay-accepts-settings")
	p.sendHeaders(1, 0, false, nil, 0, 0)
	p.sendData(1, vf.Bytes("data", 2), false, false, 0)
	promise := uint32(2 + 2*vf.Choice("promised-stream", 2))
	block := p.encode(zzheaderSets[0])
	vf.Assert(p.writer().WritePushPromise(http2.PushPromiseParam{StreamID: 1, PromiseID: promise, BlockFragment: block, EndHeaders: true}) == nil, "harness-write-push-promise")
	p.sent[1] = append(p.sent[1], zzitem{kind: zzkPush, promise: promise, hdrs: zzheaderSets[0]})
	second := vf.Choice("second-block-on", 2)
	if second == 0 {
		p.sendHeaders(1, 1, true, nil, 0, 0) // trailers of the same stream, queued behind the promise
	} else {
		// a second promise on the same stream, queued behind the first
		b2 := p.encode(zzheaderSets[1])
		vf.Assert(p.writer().WritePushPromise(http2.PushPromiseParam{StreamID: 1, PromiseID: promise + 2, BlockFragment: b2, EndHeaders: true}) == nil, "harness-write-push-promise")
		p.sent[1] = append(p.sent[1], zzitem{kind: zzkPush, promise: promise + 2, hdrs: zzheaderSets[1]})
	}
	vf.Assert(p.pump() == nil, "relay-accepts-frames")
	p.collect()
	vf.Assert(w.cw.WriteWindowUpdate(1, 10) == nil, "harness-write-window-update")
	vf.Assert(w.pumpClient() == nil, "relay-accepts-window-update")
	p.collect()
	p.compare("push-behind-data", []uint32{1})
	vf.Reach("done")
}

func zzrender(f http2.Frame) string {
	switch f := f.(type) {
	case *http2.SettingsFrame:
		s := "SETTINGS"
		if f.IsAck() {
			return s + " ack"
		}
		f.ForeachSetting(func(x http2.Setting) error {
			s += " " + string(rune('A'+int(x.ID))) + "=" + string([]byte{byte(x.Val >> 24), byte(x.Val >> 16), byte(x.Val >> 8), byte(x.Val)})
			return nil
		})
		return s
	case *http2.PingFrame:
		s := "PING "
		if f.IsAck() {
			s = "PING ack "
		}
		return s + string(f.Data[:])
	case *http2.GoAwayFrame:
		return "GOAWAY " + string([]byte{byte(f.LastStreamID >> 24), byte(f.LastStreamID >> 16), byte(f.LastStreamID >> 8), byte(f.LastStreamID),
			byte(f.ErrCode >> 24), byte(f.ErrCode >> 16), byte(f.ErrCode >> 8), byte(f.ErrCode)}) + string(f.DebugData())
	}
	return ""
}

// VerifC08ConnectionFrames: SETTINGS (incl. ack), PING (incl. ack), GOAWAY,
// PRIORITY, RST_STREAM and PUSH_PROMISE (whole or continued) with symbolic
// contents, in either direction; each must arrive with identical contents.
func VerifC08ConnectionFrames() {
	w := zznewWorld(nil)
	c2s := vf.Choice("direction", 2) == 0
	p := zznewPair(w, c2s)
	wr := p.writer()
	var want []string
	kindChoice := vf.Choice("frame", 7)
	cutPush := false
	switch kindChoice {
	case 0:
		// a setting the relay does not interpret
		val := vf.Uint32("settings.val")
		vf.Assert(wr.WriteSettings(http2.Setting{ID: http2.SettingMaxConcurrentStreams, Val: val}) == nil, "harness-write")
		want = append(want, "SETTINGS "+string(rune('A'+int(http2.SettingMaxConcurrentStreams)))+"="+string([]byte{byte(val >> 24), byte(val >> 16), byte(val >> 8), byte(val)}))
	case 1:
		vf.Assert(wr.WriteSettingsAck() == nil, "harness-write")
		want = append(want, "SETTINGS ack")
	case 2:
		var d [8]byte
		copy(d[:], vf.Bytes("ping", 8))
		ack := vf.Choice("ack", 2) == 1
		vf.Assert(wr.WritePing(ack, d) == nil, "harness-write")
		if ack {
			want = append(want, "PING ack "+string(d[:]))
		} else {
			want = append(want, "PING "+string(d[:]))
		}
	case 3:
		last := vf.Uint32("goaway.last") & 0x7fffffff
		code := vf.Uint32("goaway.code")
		dbg := vf.Bytes("goaway.debug", 2)
		vf.Assert(wr.WriteGoAway(last, http2.ErrCode(code), dbg) == nil, "harness-write")
		want = append(want, "GOAWAY "+string([]byte{byte(last >> 24), byte(last >> 16), byte(last >> 8), byte(last), byte(code >> 24), byte(code >> 16), byte(code >> 8), byte(code)})+string(dbg))
	case 4:
		pr := zzsymPriority("prio")
		vf.Assume(pr.StreamDep != 5) // a stream cannot depend on itself
		vf.Assert(wr.WritePriority(5, *pr) == nil, "harness-write")
		p.sent[5] = append(p.sent[5], zzitem{kind: zzkPriority, prio: *pr})
	case 5:
		code := vf.Uint32("rst")
		vf.Assert(wr.WriteRSTStream(5, http2.ErrCode(code)) == nil, "harness-write")
		p.sent[5] = append(p.sent[5], zzitem{kind: zzkRST, code: code})
	case 6:
		promise := vf.Uint32("promise") & 0x7fffffff
		vf.Assume(promise != 0)
		block := p.encode(zzheaderSets[0])
		if vf.Choice("cuts", 2) == 0 {
			vf.Assert(wr.WritePushPromise(http2.PushPromiseParam{StreamID: 5, PromiseID: promise, BlockFragment: block, EndHeaders: true}) == nil, "harness-write")
		} else {
			cutPush = true
			vf.Assert(wr.WritePushPromise(http2.PushPromiseParam{StreamID: 5, PromiseID: promise, BlockFragment: block[:2], EndHeaders: false}) == nil, "harness-write")
			vf.Assert(wr.WriteContinuation(5, true, block[2:]) == nil, "harness-write")
		}
		p.sent[5] = append(p.sent[5], zzitem{kind: zzkPush, promise: promise, hdrs: zzheaderSets[0]})
	}
	// Known finding: x/net's Framer (checkFrameOrder) does not track an open
	// header block started by PUSH_PROMISE, so the CONTINUATION that follows is
	// rejected with PROTOCOL_ERROR and the relay session ends.
	vf.Known("C08-push-promise-continuation", kindChoice == 6 && cutPush)
	vf.Assert(p.pump() == nil, "relay-accepts-frames")
	// connection-level frames, in order
	var rd *http2.Framer
	var buf *bytes.Buffer
	if c2s {
		rd, buf = w.sr, &w.serverOut
	} else {
		rd, buf = w.cr, &w.clientOut
	}
	saved := append([]byte(nil), buf.Bytes()...)
	var got []string
	for buf.Len() > 0 {
		f, err := rd.ReadFrame()
		vf.Assert(err == nil, "delivered-bytes-parse-as-frames")
		if err != nil {
			break
		}
		if s := zzrender(f); s != "" {
			got = append(got, s)
		}
	}
	vf.Assert(len(got) == len(want), "connection-frames-count")
	if len(got) == len(want) {
		for i := range got {
			vf.Assert(got[i] == want[i], "connection-frame-contents")
		}
	}
	// stream-level frames of this scenario
	buf.Write(saved)
	if c2s {
		w.sr = http2.NewFramer(nil, &w.serverOut)
	} else {
		w.cr = http2.NewFramer(nil, &w.clientOut)
	}
	p.collect()
	p.compare("connection", []uint32{5})
	vf.Reach("done")
}

// segReader delivers its content in two pieces: first k bytes, then the rest.
type zzsegReader struct {
	data  []byte
	first int
	calls int
}

func (s *zzsegReader) Read(p []byte) (int, error) {
	if len(s.data) == 0 {
		return 0, nil
	}
	n := len(s.data)
	if s.calls == 0 && s.first < n {
		n = s.first
	}
	s.calls++
	if n > len(p) {
		n = len(p)
	}
	copy(p, s.data[:n])
	s.data = s.data[n:]
	return n, nil
}

// VerifC08Preface: the transport delivers the client's 24-byte connection
// preface in two segments cut at every possible point.
func VerifC08Preface() {
	k := 1 + vf.Choice("first-segment", len(connectionPreface))
	client := &zzsegReader{data: append([]byte(nil), connectionPreface...), first: k}
	var server bytes.Buffer
	err := forwardPreface(&server, client)
	vf.Assert(err == nil, "preface-forwarded-however-segmented")
	vf.Assert(bytes.Equal(server.Bytes(), connectionPreface), "preface-bytes-identical")
	vf.Reach("done")
}

// VerifC08Split: the function that cuts an encoded header block into the
// HEADERS / PUSH_PROMISE fragment and its CONTINUATION fragments, for symbolic
// limits and a symbolic block: the fragments concatenate to the block, the first
// respects its own (smaller) limit, every other the frame limit, and no
// CONTINUATION is empty.
func VerifC08Split() {
	contMax := vf.Int("continuation-max")
	firstMax := vf.Int("first-max")
	vf.Assume(contMax >= 1 && contMax <= 4 && firstMax >= 0 && firstMax <= contMax)
	n := vf.Choice("block-len", vf.Param("block")+1)
	data := vf.Bytes("block", n)
	chunks := splitIntoChunks(firstMax, contMax, data)
	vf.Assert(len(chunks) >= 1, "at-least-the-first-fragment")
	var all []byte
	for i, c := range chunks {
		if i == 0 {
			vf.Assert(len(c) <= firstMax, "first-fragment-within-its-limit")
		} else {
			vf.Assert(len(c) <= contMax && len(c) > 0, "continuation-fragment-within-the-frame-limit-and-not-empty")
		}
		all = append(all, c...)
	}
	vf.Assert(bytes.Equal(all, data), "fragments-concatenate-to-the-header-block")
	vf.Reach("done")
}

// VerifC08EarlyGrant: a receiver may enlarge a stream's window before the first frame of that
// stream has been relayed towards it (a client that grants more room for the response right
// after sending its request). That credit counts: DATA that fits the windows the receiver has
// granted, and the END_STREAM it carries, arrive whether the grant came before the first
// response frame or after the DATA was held back.
func VerifC08EarlyGrant() {
	w := zznewWorld(nil)
	req, resp := zznewPair(w, true), zznewPair(w, false)
	// the client allows 0 or 1 byte per stream, so the 2-byte DATA frame needs the grant
	win := vf.Choice("initial-window", 2)
	vf.Assert(w.cw.WriteSettings(http2.Setting{ID: http2.SettingInitialWindowSize, Val: uint32(win)}) == nil, "harness-write-settings")
	vf.Assert(w.pumpClient() == nil, "relay-accepts-settings")
	req.sendHeaders(1, 0, vf.Choice("request-ends-with-headers", 2) == 1, nil, 0, 0)
	vf.Assert(req.pump() == nil, "relay-accepts-request")
	req.collect()
	early := vf.Choice("grant-before-the-first-response-frame", 2) == 1
	if early {
		vf.Assert(w.cw.WriteWindowUpdate(1, 10) == nil, "harness-write-window-update")
		vf.Assert(w.pumpClient() == nil, "relay-accepts-window-update")
	}
	resp.sendHeaders(1, 1, false, nil, 0, 0)
	resp.sendData(1, vf.Bytes("data", 2), true, false, 0)
	vf.Assert(resp.pump() == nil, "relay-accepts-response")
	resp.collect()
	if !early {
		vf.Assert(w.cw.WriteWindowUpdate(1, 10) == nil, "harness-write-window-update")
		vf.Assert(w.pumpClient() == nil, "relay-accepts-window-update")
		resp.collect()
	}
	req.compare("early-grant-request", []uint32{1})
	resp.compare("early-grant-response", []uint32{1})
	vf.Reach("done")
}
