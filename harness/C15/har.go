//go:build verif

package har

import (
	"github.com/google/martian/v3"
	"github.com/google/martian/v3/zzverif/msg"
	"github.com/google/martian/v3/zzverif/vf"
	"strings"
)

var zzc15enc = []string{"", "gzip", "deflate", "br"}
var zzc15ct = []string{"", "text/plain", "application/x-www-form-urlencoded", "image/png", "multipart/form-data; boundary=b"}

// VerifC15HAR: attaching the HAR logger leaves request and response as they
// were (for every capture option), and an exchange marked skip-logging is not recorded.
func VerifC15HAR() {
	framing := vf.Choice("framing", 3)
	plain := vf.Bytes("body", vf.Choice("body-len", vf.Param("bodylens")))
	enc := zzc15enc[vf.Choice("content-encoding", len(zzc15enc))]
	ct := zzc15ct[vf.Choice("content-type", len(zzc15ct))]
	trailers := framing == msg.FrameChunked && vf.Choice("trailers", 2) == 1
	wire := plain
	if strings.HasPrefix(ct, "multipart/") {
		// one form field whose value is the symbolic body (kept clear of the delimiter alphabet)
		for _, c := range plain {
			vf.Assume((c >= 'a' && c <= 'z') || (c >= '0' && c <= '9'))
		}
		wire = []byte("--b\r\nContent-Disposition: form-data; name=\"f\"\r\n\r\n" + string(plain) + "\r\n--b--\r\n")
		enc = ""
	} else if enc == "gzip" || enc == "deflate" {
		wire = vf.Enc(enc, plain)
	}
	spec := msg.Spec{Framing: framing, Wire: wire, Trailers: trailers, Encoding: enc, ContentType: ct}
	l := NewLogger()
	switch vf.Choice("capture", 4) {
	case 0:
	case 1:
		l.SetOption(PostDataLogging(false), BodyLogging(false))
	case 2:
		l.SetOption(PostDataLoggingForContentTypes("text/"), BodyLoggingForContentTypes("text/"))
	case 3:
		l.SetOption(SkipPostDataLoggingForContentTypes("text/"), SkipBodyLoggingForContentTypes("text/"))
	}
	req, _ := msg.NewRequest(spec)
	ctx, remove, err := martian.TestContext(req, nil, nil)
	vf.Assert(err == nil, "test-context")
	defer remove()
	skip := vf.Choice("skip-logging", 2) == 1
	if skip {
		ctx.SkipLogging()
	}
	st := msg.Capture(req.Header, req.Trailer, req.ContentLength, req.TransferEncoding, req.Close, wire)
	vf.Assert(l.ModifyRequest(req) == nil, "logger-accepts-request")
	st.Unchanged(req.Header, req.Trailer, req.ContentLength, req.TransferEncoding, req.Close, req.Body, "request-after-har")

	res, _ := msg.NewResponse(spec, req)
	rst := msg.Capture(res.Header, res.Trailer, res.ContentLength, res.TransferEncoding, res.Close, wire)
	vf.Assert(l.ModifyResponse(res) == nil, "logger-accepts-response")
	rst.Unchanged(res.Header, res.Trailer, res.ContentLength, res.TransferEncoding, res.Close, res.Body, "response-after-har")

	n := len(l.Export().Log.Entries)
	if skip {
		vf.Assert(n == 0, "skip-logging-not-recorded")
		vf.Reach("skipped")
	} else {
		vf.Assert(n == 1, "exchange-recorded-once")
		vf.Reach("recorded")
	}
	vf.Reach("done")
}
