//go:build verif

package martianlog

import (
	"github.com/google/martian/v3"
	"github.com/google/martian/v3/zzverif/msg"
	"github.com/google/martian/v3/zzverif/vf"
)

var zzc15enc = []string{"", "gzip", "deflate", "br"}

// VerifC15TextLogger: the text logger leaves the message untouched for every
// option, and logs nothing for an exchange marked skip-logging.
func VerifC15TextLogger() {
	framing := vf.Choice("framing", 3)
	plain := vf.Bytes("body", vf.Choice("body-len", vf.Param("bodylens")))
	enc := zzc15enc[vf.Choice("content-encoding", len(zzc15enc))]
	trailers := framing == msg.FrameChunked && vf.Choice("trailers", 2) == 1
	wire := plain
	if enc == "gzip" || enc == "deflate" {
		wire = vf.Enc(enc, plain)
	}
	spec := msg.Spec{Framing: framing, Wire: wire, Trailers: trailers, Encoding: enc, ContentType: "text/plain"}
	lines := 0
	l := NewLogger()
	l.SetLogFunc(func(string) { lines++ })
	l.SetHeadersOnly(vf.Choice("headers-only", 2) == 1)
	l.SetDecode(vf.Choice("decode", 2) == 1)
	req, _ := msg.NewRequest(spec)
	ctx, remove, err := martian.TestContext(req, nil, nil)
	vf.Assert(err == nil, "test-context")
	defer remove()
	skip := vf.Choice("skip-logging", 2) == 1
	if skip {
		ctx.SkipLogging()
	}
	st := msg.Capture(req.Header, req.Trailer, req.ContentLength, req.TransferEncoding, req.Close, wire)
	vf.Assert(l.ModifyRequest(req) == nil, "logger-accepts-request")
	st.Unchanged(req.Header, req.Trailer, req.ContentLength, req.TransferEncoding, req.Close, req.Body, "request-after-text-logger")
	res, _ := msg.NewResponse(spec, req)
	rst := msg.Capture(res.Header, res.Trailer, res.ContentLength, res.TransferEncoding, res.Close, wire)
	vf.Assert(l.ModifyResponse(res) == nil, "logger-accepts-response")
	rst.Unchanged(res.Header, res.Trailer, res.ContentLength, res.TransferEncoding, res.Close, res.Body, "response-after-text-logger")
	if skip {
		vf.Assert(lines == 0, "skip-logging-logs-nothing")
	} else {
		vf.Assert(lines == 2, "request-and-response-logged")
	}
	vf.Reach("done")
}
