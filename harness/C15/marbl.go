//go:build verif

package marbl

import (
	"bytes"
	"errors"
	"io"

	"github.com/google/martian/v3"
	"github.com/google/martian/v3/zzverif/msg"
	"github.com/google/martian/v3/zzverif/vf"
)

// scriptBody returns a scripted sequence of (n, err) results.
type zzscriptBody struct {
	data  []byte
	ns    []int
	errs  []error
	calls int
}

func (b *zzscriptBody) Read(p []byte) (int, error) {
	if b.calls >= len(b.ns) {
		return 0, io.EOF
	}
	n, err := b.ns[b.calls], b.errs[b.calls]
	b.calls++
	if n > len(p) {
		n = len(p)
	}
	if n > len(b.data) {
		n = len(b.data)
	}
	copy(p, b.data[:n])
	b.data = b.data[n:]
	return n, err
}
func (b *zzscriptBody) Close() error { return nil }

var zzerrBoom = errors.New("boom")

// VerifC15Marbl: the marbl body wrapper returns exactly the (n, err) sequence
// and bytes of the wrapped body, the rest of the message is untouched, and an
// exchange marked skip-logging produces no frame.
func VerifC15Marbl() {
	var out bytes.Buffer
	m := NewModifier(&out)
	spec := msg.Spec{Framing: vf.Choice("framing", 3), Wire: []byte("xy"), ContentType: "text/plain"}
	req, _ := msg.NewRequest(spec)
	ctx, remove, err := martian.TestContext(req, nil, nil)
	vf.Assert(err == nil, "test-context")
	defer remove()
	skip := vf.Choice("skip-logging", 2) == 1
	if skip {
		ctx.SkipLogging()
	}
	// scripted body: up to `reads` reads, each returning 0..2 bytes and nil / EOF / another error
	reads := 1 + vf.Choice("reads", vf.Param("reads"))
	sb := &zzscriptBody{data: vf.Bytes("body", 2*reads)}
	ref := &zzscriptBody{data: append([]byte(nil), sb.data...)}
	for i := 0; i < reads; i++ {
		n := vf.Choice("n", 3)
		var e error
		switch vf.Choice("err", 3) {
		case 1:
			e = io.EOF
		case 2:
			e = zzerrBoom
		}
		sb.ns, sb.errs = append(sb.ns, n), append(sb.errs, e)
		ref.ns, ref.errs = append(ref.ns, n), append(ref.errs, e)
	}
	req.Body = sb
	st := msg.Capture(req.Header, req.Trailer, req.ContentLength, req.TransferEncoding, req.Close, nil)
	vf.Assert(m.ModifyRequest(req) == nil, "marbl-accepts-request")
	st2 := msg.Capture(req.Header, req.Trailer, req.ContentLength, req.TransferEncoding, req.Close, nil)
	_ = st2
	// everything but the body object is untouched
	vf.Assert(req.ContentLength == st.Length && len(req.TransferEncoding) == len(st.TE) && req.Close == st.Close, "framing-fields-untouched")
	vf.Assert(len(req.Header) == len(st.Header), "headers-untouched")

	// the wrapper behaves like the wrapped body for every read
	bufSize := 1 + vf.Choice("read-buffer", 3)
	for i := 0; i < reads+1; i++ {
		p, q := make([]byte, bufSize), make([]byte, bufSize)
		n1, e1 := req.Body.Read(p)
		n2, e2 := ref.Read(q)
		vf.Assert(n1 == n2, "wrapper-returns-same-count")
		vf.Assert(e1 == e2, "wrapper-returns-same-error")
		vf.Assert(bytes.Equal(p[:n1], q[:n2]), "wrapper-returns-same-bytes")
	}
	vf.Quiesce()
	if skip {
		vf.Assert(out.Len() == 0, "skip-logging-emits-no-frame")
		vf.Reach("skipped")
	} else {
		vf.Assert(out.Len() > 0, "exchange-logged")
		vf.Reach("logged")
	}
	vf.Reach("done")
}
