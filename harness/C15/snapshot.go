//go:build verif

package messageview

import (
	"bytes"
	"io/ioutil"
	"net/http"
	"strings"

	"github.com/google/martian/v3/zzverif/msg"
	"github.com/google/martian/v3/zzverif/vf"
)

var zzencodings = []string{"", "gzip", "deflate", "br"}
var zzctypes = []string{"", "text/plain", "image/png"}

// VerifC15Snapshot: taking a snapshot leaves the message as it was, and the
// snapshot equals a reference serialisation, partitioned by its three readers.
func VerifC15Snapshot() {
	isReq := vf.Choice("message", 2) == 0
	framing := vf.Choice("framing", 3)
	plain := vf.Bytes("body", vf.Choice("body-len", vf.Param("bodylens")))
	enc := zzencodings[vf.Choice("content-encoding", len(zzencodings))]
	ct := zzctypes[vf.Choice("content-type", len(zzctypes))]
	trailers := framing == msg.FrameChunked && vf.Choice("trailers", 2) == 1
	wire := plain
	if enc == "gzip" || enc == "deflate" {
		wire = vf.Enc(enc, plain)
	}
	opt := vf.Choice("option", 3)
	mv := New()
	switch opt {
	case 1:
		mv.SkipBody(true)
	case 2:
		mv.SkipBodyUnlessContentType("text/")
	}
	skip := opt == 1 || (opt == 2 && !strings.HasPrefix(ct, "text/"))
	// trailers either set on the message up front, or (as for a message parsed from the wire)
	// declared up front and filled in when the body reaches its end
	late := trailers && !skip && vf.Choice("trailer-values-arrive-with-end-of-body", 2) == 1
	spec := msg.Spec{Framing: framing, Wire: wire, Trailers: trailers, LateTrailers: late, Encoding: enc, ContentType: ct}
	final := http.Header{"X-Trailer": {"t1"}} // what the trailers are once the body has been read

	var head, body, trailer []byte
	req, _ := msg.NewRequest(spec)
	if isReq {
		tr := req.Trailer
		if late {
			tr = final
		}
		st := msg.Capture(req.Header, tr, req.ContentLength, req.TransferEncoding, req.Close, wire)
		vf.Assert(mv.SnapshotRequest(req) == nil, "snapshot-succeeds")
		st.Unchanged(req.Header, req.Trailer, req.ContentLength, req.TransferEncoding, req.Close, req.Body, "request-after-snapshot")
		head, body, trailer = msg.ReferenceRequest(req, wire, !skip)
	} else {
		res, _ := msg.NewResponse(spec, req)
		tr := res.Trailer
		if late {
			tr = final
		}
		st := msg.Capture(res.Header, tr, res.ContentLength, res.TransferEncoding, res.Close, wire)
		vf.Assert(mv.SnapshotResponse(res) == nil, "snapshot-succeeds")
		st.Unchanged(res.Header, res.Trailer, res.ContentLength, res.TransferEncoding, res.Close, res.Body, "response-after-snapshot")
		head, body, trailer = msg.ReferenceResponse(res, wire, !skip)
	}

	r, err := mv.Reader()
	vf.Assert(err == nil, "reader")
	all, _ := ioutil.ReadAll(r)
	want := append(append(append([]byte(nil), head...), body...), trailer...)
	hb, _ := ioutil.ReadAll(mv.HeaderReader())
	vf.Assert(bytes.Equal(hb, head), "header-reader-yields-the-head")
	br, err := mv.BodyReader()
	vf.Assert(err == nil, "body-reader")
	bb, _ := ioutil.ReadAll(br)
	vf.Assert(bytes.Equal(bb, body), "body-reader-yields-the-framed-body")
	tb, _ := ioutil.ReadAll(mv.TrailerReader())
	// Known finding: with declared trailers the snapshot lacks the empty line that terminates
	// the trailer part (the existing tests pin those bytes). Everything else is checked outside
	// the known region, against the reference with exactly that line removed, so that any other
	// deviation in a message with trailers is still reported.
	if trailers && !skip {
		cut := func(b []byte) []byte { return bytes.TrimSuffix(b, []byte("\r\n")) }
		vf.Assert(bytes.Equal(all, want) || bytes.Equal(all, cut(want)), "snapshot-equals-the-message")
		vf.Assert(bytes.Equal(tb, trailer) || bytes.Equal(tb, cut(trailer)), "trailer-reader-yields-the-trailer-part")
		vf.Known("C15-trailer-terminator", true)
	}
	vf.Assert(bytes.Equal(all, want), "snapshot-equals-the-message")
	vf.Assert(bytes.Equal(tb, trailer), "trailer-reader-yields-the-trailer-part")
	vf.KnownClear("C15-trailer-terminator")

	if !skip {
		dr, err := mv.BodyReader(Decode())
		vf.Assert(err == nil, "decoding-body-reader")
		if err == nil {
			db, derr := ioutil.ReadAll(dr)
			vf.Assert(derr == nil, "decoded-body-readable")
			wantDecoded := plain // identity, gzip, deflate: the content; unknown codings stay as sent
			vf.Assert(bytes.Equal(db, wantDecoded), "decoded-body-is-the-content")
		}
	}
	vf.Reach("done")
}
