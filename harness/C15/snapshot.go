//go:build verif

package messageview

import (
	"bytes"
	"io/ioutil"
	"strings"

	"github.com/google/martian/v3/zzverif/msg"
	"github.com/google/martian/v3/zzverif/vf"
)

var encodings = []string{"", "gzip", "deflate", "br"}
var ctypes = []string{"", "text/plain", "image/png"}

// VerifC15Snapshot: taking a snapshot leaves the message as it was, and the
// snapshot equals a reference serialisation, partitioned by its three readers.
func VerifC15Snapshot() {
	isReq := vf.Choice("message", 2) == 0
	framing := vf.Choice("framing", 3)
	plain := vf.Bytes("body", vf.Choice("body-len", vf.Param("bodylens")))
	enc := encodings[vf.Choice("content-encoding", len(encodings))]
	ct := ctypes[vf.Choice("content-type", len(ctypes))]
	trailers := framing == msg.FrameChunked && vf.Choice("trailers", 2) == 1
	wire := plain
	if enc == "gzip" || enc == "deflate" {
		wire = vf.Enc(enc, plain)
	}
	opt := vf.Choice("option", 3)
	mv := New()
	switch opt {
	case 1:
		mv.SkipBody(true)
	case 2:
		mv.SkipBodyUnlessContentType("text/")
	}
	skip := opt == 1 || (opt == 2 && !strings.HasPrefix(ct, "text/"))
	spec := msg.Spec{Framing: framing, Wire: wire, Trailers: trailers, Encoding: enc, ContentType: ct}

	var head, body, trailer []byte
	req, _ := msg.NewRequest(spec)
	if isReq {
		st := msg.Capture(req.Header, req.Trailer, req.ContentLength, req.TransferEncoding, req.Close, wire)
		vf.Assert(mv.SnapshotRequest(req) == nil, "snapshot-succeeds")
		st.Unchanged(req.Header, req.Trailer, req.ContentLength, req.TransferEncoding, req.Close, req.Body, "request-after-snapshot")
		head, body, trailer = msg.ReferenceRequest(req, wire, !skip)
	} else {
		res, _ := msg.NewResponse(spec, req)
		st := msg.Capture(res.Header, res.Trailer, res.ContentLength, res.TransferEncoding, res.Close, wire)
		vf.Assert(mv.SnapshotResponse(res) == nil, "snapshot-succeeds")
		st.Unchanged(res.Header, res.Trailer, res.ContentLength, res.TransferEncoding, res.Close, res.Body, "response-after-snapshot")
		head, body, trailer = msg.ReferenceResponse(res, wire, !skip)
	}

	// Known finding: with declared trailers the snapshot lacks the empty line
	// that terminates the trailer part (the existing tests pin those bytes).
	vf.Known("C15-trailer-terminator", trailers && !skip)
	r, err := mv.Reader()
	vf.Assert(err == nil, "reader")
	all, _ := ioutil.ReadAll(r)
	want := append(append(append([]byte(nil), head...), body...), trailer...)
	vf.Assert(bytes.Equal(all, want), "snapshot-equals-the-message")
	hb, _ := ioutil.ReadAll(mv.HeaderReader())
	vf.Assert(bytes.Equal(hb, head), "header-reader-yields-the-head")
	br, err := mv.BodyReader()
	vf.Assert(err == nil, "body-reader")
	bb, _ := ioutil.ReadAll(br)
	vf.Assert(bytes.Equal(bb, body), "body-reader-yields-the-framed-body")
	tb, _ := ioutil.ReadAll(mv.TrailerReader())
	vf.Assert(bytes.Equal(tb, trailer), "trailer-reader-yields-the-trailer-part")
	vf.KnownClear("C15-trailer-terminator")

	if !skip {
		dr, err := mv.BodyReader(Decode())
		vf.Assert(err == nil, "decoding-body-reader")
		if err == nil {
			db, derr := ioutil.ReadAll(dr)
			vf.Assert(derr == nil, "decoded-body-readable")
			wantDecoded := plain // identity, gzip, deflate: the content; unknown codings stay as sent
			vf.Assert(bytes.Equal(db, wantDecoded), "decoded-body-is-the-content")
		}
	}
	vf.Reach("done")
}
