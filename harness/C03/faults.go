//go:build verif

package martian

import (
	"bufio"
	"bytes"
	"errors"
	"io"
	"io/ioutil"
	"net"
	"net/http"
	"net/url"

	"github.com/google/martian/v3/zzverif/vf"
)

// originTimeout is a net.Error reporting a timeout.
type zzoriginTimeout struct{}

func (zzoriginTimeout) Error() string   { return "dial tcp 10.0.0.9:80: i/o timeout" }
func (zzoriginTimeout) Timeout() bool   { return true }
func (zzoriginTimeout) Temporary() bool { return true }

type zzcountingResMod struct{ calls []int }

func (m *zzcountingResMod) ModifyResponse(res *http.Response) error {
	m.calls = append(m.calls, res.StatusCode)
	return nil
}

// VerifC03OriginFaults: the origin refuses the connection, sends bytes that are
// not HTTP, or closes at every byte offset k of a Content-Length framed or
// chunked response; a second, well-formed request follows on the same client
// connection.
func VerifC03OriginFaults() {
	first := zzreqSpec{method: "GET", path: "/one", hval: "a"}
	second := zzreqSpec{method: "GET", path: "/two", hval: "b"}
	conn := zznewClientConn("client", true, first.wire(), second.wire())
	full := zzresSpec{status: 200, hval: "x", framing: vf.Choice("origin-framing", 2), body: vf.Bytes("origin-body", 3)}.wire()
	good := zzresSpec{status: 200, hval: "y", body: []byte("second")}.wire()
	fault := vf.Choice("fault", 3)
	refusal := 0
	if fault == 0 {
		refusal = vf.Choice("refusal-shape", 6)
	}
	// what a non-HTTP origin sends: another protocol's banner, or something that starts like a
	// response and then carries a header line with a control byte (the transport's error quotes
	// that line, and the 502 must be well formed all the same)
	nonHTTP := []byte("SSH-2.0-OpenSSH_8.9\r\n")
	if fault == 1 {
		if c := vf.Choice("non-http-shape", 4); c > 0 {
			nonHTTP = []byte("HTTP/1.1 200 OK\r\nX-Gar" + string([]byte{0, 0x00, 0x7f, 0x01}[c:c+1]) + "bage: v\r\n\r\n")
		}
	}
	var k int
	o := &zzorigin{}
	o.answer = func(i int, req *http.Request) (*http.Response, error) {
		if i > 0 {
			return zzrawResponse(good, req)
		}
		switch fault {
		case 0:
			// the shapes of error a transport reports for a failed dial
			switch refusal {
			case 1: // refused by a resolved address
				return nil, &net.OpError{Op: "dial", Net: "tcp", Addr: &net.TCPAddr{IP: net.IPv4(10, 0, 0, 9), Port: 80}, Err: errors.New("connect: connection refused")}
			case 2: // failed before any address was known (unresolvable host, invalid port)
				return nil, &net.OpError{Op: "dial", Net: "tcp", Err: &net.DNSError{Err: "no such host", Name: "example.com", IsNotFound: true}}
			case 4: // the origin accepted, read the request and closed without a byte: the transport reports a bare io.EOF
				return nil, io.EOF
			case 5: // dial or handshake timeout
				return nil, zzoriginTimeout{}
			case 3: // wrapped once more, as http.Client does
				return nil, &url.Error{Op: "Get", URL: "http://example.com/one", Err: &net.OpError{Op: "dial", Net: "tcp", Err: errors.New("unknown port")}}
			}
			return nil, errors.New("dial tcp: connection refused")
		case 1:
			return zzrawResponse(nonHTTP, req)
		default:
			return zzrawResponse(full[:k], req)
		}
	}
	if fault == 2 {
		k = vf.Choice("truncate-at", len(full)+1)
	}
	rm := &zzcountingResMod{}
	p := NewProxy()
	p.SetRoundTripper(o)
	p.SetResponseModifier(rm)
	zzserveConn(p, conn) // a Go panic anywhere in here is reported by the engine

	out := conn.out.Bytes()
	br := bufio.NewReader(bytes.NewReader(out))
	res1, err1 := http.ReadResponse(br, &http.Request{Method: "GET"})
	vf.Assert(err1 == nil, "client-receives-a-well-formed-response-head")
	if err1 != nil {
		return
	}
	body1, berr := ioutil.ReadAll(res1.Body)
	headComplete := fault == 2 && bytes.Contains(full[:k], []byte("\r\n\r\n"))
	switch {
	case !headComplete:
		// failure before a complete response head: 502 with Warning, through the response modifier, connection continues
		vf.Assert(res1.StatusCode == 502, "failure-before-the-head-becomes-502")
		vf.Assert(len(res1.Header["Warning"]) >= 1, "502-carries-a-warning")
		vf.Assert(berr == nil, "502-is-complete")
		vf.Assert(len(rm.calls) >= 1 && rm.calls[0] == 502, "502-passed-through-the-response-modifier")
		res2, err2 := http.ReadResponse(br, &http.Request{Method: "GET"})
		vf.Assert(err2 == nil, "connection-serves-the-next-request-after-a-502")
		if err2 == nil {
			body2, _ := ioutil.ReadAll(res2.Body)
			vf.Assert(res2.StatusCode == 200 && string(body2) == "second" && len(res2.Header["X-B"]) == 1 && res2.Header["X-B"][0] == "y", "next-response-correct-and-one-to-one")
		}
		vf.Assert(len(o.seen) == 2, "both-requests-forwarded")
		vf.Reach("502")
	case k == len(full):
		vf.Assert(res1.StatusCode == 200 && berr == nil && bytes.Equal(body1, full[len(full)-3:]) || full[len(full)-1] == '\n', "complete-response-delivered")
		vf.Reach("complete")
	default:
		// the origin went away after the head: the client must be able to tell, and nothing else may follow
		vf.Assert(res1.StatusCode == 200, "origin-status-forwarded")
		vf.Assert(berr != nil, "truncated-response-is-detectably-incomplete")
		vf.Assert(conn.closed >= 1, "connection-closed-after-an-incomplete-response")
		vf.Assert(len(o.seen) == 1, "no-further-request-served-after-an-incomplete-response")
		vf.Assert(!bytes.Contains(out, []byte("second")), "no-bytes-of-a-later-response-after-an-incomplete-one")
		vf.Reach("truncated")
	}
	vf.Reach("done")
}

// VerifC03ClientBytes: arbitrary bytes from the client never crash the handler.
func VerifC03ClientBytes() {
	n := vf.Param("bytes")
	prefix := []string{"", "GET ", "GET / HTTP/1.1\r\n", "POST / HTTP/1.1\r\nContent-Length: "}[vf.Choice("prefix", vf.Param("prefixes"))]
	junk := vf.Bytes("junk", n)
	conn := zznewClientConn("client", true, append([]byte(prefix), junk...))
	o := &zzorigin{}
	o.answer = func(i int, req *http.Request) (*http.Response, error) {
		return zzrawResponse(zzresSpec{status: 200, hval: "y", body: []byte("ok")}.wire(), req)
	}
	p := NewProxy()
	p.SetRoundTripper(o)
	zzserveConn(p, conn)
	vf.Assert(conn.closed >= 1, "connection-closed-at-the-end")
	vf.Reach("done")
}

// VerifC03ConnectFailure: a CONNECT whose target cannot be reached (no MITM),
// followed by an ordinary request on the same client connection. The 502 must be
// a complete, properly framed response with a Warning that passed the response
// modifier, and what follows it must be consistent with its framing: either the
// connection goes on and serves the next request one-to-one, or the 502 announced
// the close and nothing follows it.
func VerifC03ConnectFailure() {
	connect := []byte("CONNECT unreachable.example:443 HTTP/1.1\r\nHost: unreachable.example:443\r\n\r\n")
	second := zzreqSpec{method: "GET", path: "/two", hval: "b"}
	conn := zznewClientConn("client", true, connect, second.wire())
	shape := vf.Choice("refusal-shape", 3)
	o := &zzorigin{}
	o.answer = func(i int, req *http.Request) (*http.Response, error) {
		return zzrawResponse(zzresSpec{status: 200, hval: "y", body: []byte("second")}.wire(), req)
	}
	rm := &zzcountingResMod{}
	p := NewProxy()
	p.SetRoundTripper(o)
	p.SetResponseModifier(rm)
	p.SetDial(func(network, addr string) (net.Conn, error) {
		switch shape {
		case 1:
			return nil, &net.OpError{Op: "dial", Net: "tcp", Addr: &net.TCPAddr{IP: net.IPv4(10, 0, 0, 9), Port: 443}, Err: errors.New("connect: connection refused")}
		case 2:
			return nil, &net.OpError{Op: "dial", Net: "tcp", Err: &net.DNSError{Err: "no such host", Name: "unreachable.example", IsNotFound: true}}
		}
		return nil, errors.New("dial tcp: connection refused")
	})
	zzserveConn(p, conn)

	out := conn.out.Bytes()
	br := bufio.NewReader(bytes.NewReader(out))
	res1, err1 := http.ReadResponse(br, &http.Request{Method: "CONNECT"})
	vf.Assert(err1 == nil, "client-receives-a-well-formed-response-head")
	if err1 != nil {
		return
	}
	vf.Assert(res1.StatusCode == 502, "failure-before-the-head-becomes-502")
	vf.Assert(len(res1.Header["Warning"]) >= 1, "502-carries-a-warning")
	vf.Assert(len(rm.calls) >= 1 && rm.calls[0] == 502, "502-passed-through-the-response-modifier")
	// a CONNECT answer other than 2xx has a body framed like any response
	closeDelimited := res1.ContentLength < 0 && len(res1.TransferEncoding) == 0
	if res1.Close || closeDelimited {
		// the client was told the connection ends here: it must, and nothing may follow
		rest, _ := ioutil.ReadAll(br)
		vf.Assert(!bytes.Contains(rest, []byte("HTTP/1.1 200")) && len(o.seen) == 0, "nothing-served-after-a-502-that-announced-the-close")
		vf.Reach("502-closed")
	} else {
		_, berr := ioutil.ReadAll(res1.Body)
		vf.Assert(berr == nil, "502-is-complete")
		res2, err2 := http.ReadResponse(br, &http.Request{Method: "GET"})
		vf.Assert(err2 == nil, "connection-serves-the-next-request-after-a-502")
		if err2 == nil {
			body2, _ := ioutil.ReadAll(res2.Body)
			vf.Assert(res2.StatusCode == 200 && string(body2) == "second", "next-response-correct-and-one-to-one")
		}
		vf.Assert(len(o.seen) == 1, "next-request-forwarded-once")
		vf.Reach("502-continues")
	}
	vf.Reach("done")
}
