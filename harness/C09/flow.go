//go:build verif

package h2

import (
	"golang.org/x/net/http2"

	"github.com/google/martian/v3/zzverif/vf"
)

const zzmaxWindow = int64(1)<<31 - 1

// ledger is the reference flow-control account of the receiver (the server
// side for client->server DATA) and of the sender's credit.
type zzledger struct {
	initial      int64 // receiver's current SETTINGS_INITIAL_WINDOW_SIZE
	maxFrame     int64
	connGranted  int64
	streamInc    map[uint32]int64
	connSent     int64
	streamSent   map[uint32]int64
	creditConn   int64
	creditStream map[uint32]int64
	accConn      int64
	accStream    map[uint32]int64
	framesSent   map[uint32]int     // DATA frames delivered to the receiver, per stream
	accFrames    map[uint32][]int64 // flow-controlled size of every DATA frame the relay accepted, per stream, in order
}

func zznewLedger() *zzledger {
	return &zzledger{initial: 65535, maxFrame: 16384, connGranted: 65535, streamInc: map[uint32]int64{}, streamSent: map[uint32]int64{},
		creditStream: map[uint32]int64{}, accStream: map[uint32]int64{}, accFrames: map[uint32][]int64{}, framesSent: map[uint32]int{}}
}

func (l *zzledger) connWindow() int64            { return l.connGranted - l.connSent }
func (l *zzledger) streamWindow(id uint32) int64 { return l.initial + l.streamInc[id] - l.streamSent[id] }

// observe parses what the relay has written to the server and to the client
// since the last call and updates the ledger. It returns the streams on which
// DATA was delivered to the server.
func (l *zzledger) observe(w *zzworld) map[uint32]bool {
	emitted := map[uint32]bool{}
	for w.serverOut.Len() > 0 {
		f, err := w.sr.ReadFrame()
		vf.Assert(err == nil, "relay-output-to-server-parses")
		if err != nil {
			break
		}
		if d, ok := f.(*http2.DataFrame); ok {
			n := int64(d.Header().Length)
			vf.Assert(n <= l.maxFrame, "data-frame-within-max-frame-size")
			l.connSent += n
			l.streamSent[d.StreamID] += n
			l.framesSent[d.StreamID]++
			emitted[d.StreamID] = true
		}
	}
	for w.clientOut.Len() > 0 {
		f, err := w.cr.ReadFrame()
		vf.Assert(err == nil, "relay-output-to-client-parses")
		if err != nil {
			break
		}
		if u, ok := f.(*http2.WindowUpdateFrame); ok {
			if u.StreamID == 0 {
				l.creditConn += int64(u.Increment)
			} else {
				l.creditStream[u.StreamID] += int64(u.Increment)
			}
		}
	}
	return emitted
}

func (l *zzledger) check(w *zzworld, emitted map[uint32]bool, streams []uint32) {
	if len(emitted) > 0 {
		vf.Assert(l.connSent <= l.connGranted, "connection-window-respected")
	}
	for id := range emitted {
		vf.Assert(l.streamSent[id] <= l.initial+l.streamInc[id], "stream-window-respected")
	}
	vf.Assert(l.creditConn == l.accConn, "connection-credit-equals-flow-controlled-length")
	for _, id := range streams {
		vf.Assert(l.creditStream[id] == l.accStream[id], "stream-credit-equals-flow-controlled-length")
		// nothing stranded: the oldest accepted DATA frame of the stream that has not been delivered
		// yet (frames are relayed one for one and in order in this harness: no frame exceeds the
		// maximum frame size) would not fit the windows the receiver has granted. The accepted
		// flow-controlled size is used, which is never smaller than what the relay forwards.
		if k := l.framesSent[id]; k < len(l.accFrames[id]) {
			z := l.accFrames[id][k]
			fits := z <= l.connWindow() && z <= l.streamWindow(id)
			vf.Assert(!fits, "no-stranded-frame")
		}
	}
}

// VerifC09History runs a symbolic history of DATA (client->server, padded or
// not), SETTINGS(initial window) and WINDOW_UPDATE (server->client) events.
func VerifC09History() {
	w := zznewWorld(nil)
	l := zznewLedger()
	streams := []uint32{1, 3}
	events := vf.Param("events")
	lens := []int{0, 2}
	if vf.Param("lens") > 2 {
		lens = []int{0, 1, 3}
	}
	// The history may start from a session whose connection window towards the server is nearly
	// used up by earlier traffic (a state every long-lived session reaches): the relay's account
	// and the ledger start from the same symbolic remainder.
	if vf.Choice("connection-window-nearly-used-up", 2) == 1 {
		left := vf.Int64("connection-window-left")
		vf.Assume(left >= 0 && left <= 4)
		w.cToS.flowMu.Lock()
		w.cToS.connectionWindowSize = int(left)
		w.cToS.flowMu.Unlock()
		l.connGranted = left
	}
	for e := 0; e < events; e++ {
		switch vf.Choice("event", 3) {
		case 0: // DATA from the client
			id := streams[vf.Choice("stream", len(streams))]
			n := lens[vf.Choice("len", len(lens))]
			data := make([]byte, n)
			padded := vf.Choice("padded", 2) == 1
			var err error
			fc := int64(n)
			if padded {
				padLen := vf.Choice("padlen", 2) * 2 // 0 or 2
				err = w.cw.WriteDataPadded(id, false, data, make([]byte, padLen))
				fc += int64(1 + padLen)
			} else {
				err = w.cw.WriteData(id, false, data)
			}
			vf.Assert(err == nil, "harness-write-data")
			l.accConn += fc
			l.accStream[id] += fc
			l.accFrames[id] = append(l.accFrames[id], fc)
			vf.Assert(w.pumpClient() == nil, "relay-accepts-data")
			vf.Reach("data")
		case 1: // SETTINGS(initial window) from the server
			v := vf.Uint32("initial-window")
			vf.Assume(int64(v) <= zzmaxWindow)
			for _, id := range streams {
				// RFC 7540 6.9.2: a change must not push a stream window above 2^31-1
				vf.Assume(int64(v)+l.streamInc[id]-l.streamSent[id] <= zzmaxWindow)
			}
			l.initial = int64(v)
			vf.Assert(w.sw.WriteSettings(http2.Setting{ID: http2.SettingInitialWindowSize, Val: v}) == nil, "harness-write-settings")
			vf.Assert(w.pumpServer() == nil, "relay-accepts-settings")
			vf.Reach("settings")
		case 2: // WINDOW_UPDATE from the server
			inc := vf.Uint32("increment")
			vf.Assume(inc >= 1 && int64(inc) <= zzmaxWindow)
			k := vf.Choice("target", len(streams)+1)
			var id uint32
			if k > 0 {
				id = streams[k-1]
				l.streamInc[id] += int64(inc)
				vf.Assume(l.streamWindow(id) <= zzmaxWindow)
			} else {
				l.connGranted += int64(inc)
				vf.Assume(l.connWindow() <= zzmaxWindow)
			}
			vf.Assert(w.sw.WriteWindowUpdate(id, inc) == nil, "harness-write-window-update")
			vf.Assert(w.pumpServer() == nil, "relay-accepts-window-update")
			vf.Reach("window-update")
		}
		emitted := l.observe(w)
		l.check(w, emitted, streams)
	}
	vf.Reach("done")
}

// VerifC09MaxFrame: the server lowers/raises SETTINGS_MAX_FRAME_SIZE to a
// symbolic RFC-valid value m; the client sends one DATA frame of 16386 bytes
// (just above the protocol minimum of 16384). Every frame delivered to the
// server must be <= m and the bytes must arrive complete and in order.
func VerifC09MaxFrame() {
	w := zznewWorld(nil)
	l := zznewLedger()
	m := vf.Uint32("max-frame-size")
	vf.Assume(m >= 16384 && m <= 1<<24-1)
	l.maxFrame = int64(m)
	vf.Assert(w.sw.WriteSettings(http2.Setting{ID: http2.SettingMaxFrameSize, Val: m}) == nil, "harness-write-settings")
	vf.Assert(w.pumpServer() == nil, "relay-accepts-settings")
	l.observe(w)

	const total = 16386
	data := make([]byte, total)
	for i := range data {
		data[i] = byte(i)
	}
	w.cw.SetMaxReadFrameSize(1 << 20)
	w.cf.SetMaxReadFrameSize(1 << 20)
	w.sr.SetMaxReadFrameSize(1 << 20)
	// A stream processor (for example the gRPC reframer) hands the relay a
	// payload larger than the receiver's maximum frame size.
	sink := &relayAdapter{1, w.cToS}
	vf.Assert(sink.Data(data, true) == nil, "relay-accepts-data")
	vf.Assert(zzdrain(w.cToS) == nil, "relay-drains")

	got := 0
	ended := false
	for w.serverOut.Len() > 0 {
		f, err := w.sr.ReadFrame()
		vf.Assert(err == nil, "relay-output-to-server-parses")
		if err != nil {
			break
		}
		if d, ok := f.(*http2.DataFrame); ok {
			vf.Assert(int64(d.Header().Length) <= l.maxFrame, "data-frame-within-max-frame-size")
			vf.Assert(!ended, "no-data-after-end-stream")
			p := d.Data()
			for i := range p {
				if p[i] != byte(got+i) {
					vf.Fail("data-bytes-in-order")
				}
			}
			got += len(p)
			ended = d.StreamEnded()
		}
	}
	vf.Assert(got == total, "all-bytes-delivered")
	vf.Assert(ended, "end-stream-delivered")
	vf.Reach("done")
}
