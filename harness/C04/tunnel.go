//go:build verif

package martian

import (
	"sync"
	"bytes"
	"errors"
	"io"
	"net"
	"net/url"
	"time"

	"github.com/google/martian/v3/zzverif/vf"
)

// halfPipe carries bytes one way between an endpoint and the proxy's side of a connection.
type zzhalfPipe struct {
	ch     chan []byte
	closed bool
	reset  bool // the endpoint went away abortively (RST): reads fail instead of ending
	rest   []byte
}

func zznewHalfPipe() *zzhalfPipe { return &zzhalfPipe{ch: make(chan []byte, 32)} }

func (h *zzhalfPipe) send(b []byte) {
	if len(b) > 0 && !h.closed {
		h.ch <- append([]byte(nil), b...)
	}
}
func (h *zzhalfPipe) abort() {
	h.reset = true
	h.closeSend()
}
func (h *zzhalfPipe) closeSend() {
	if !h.closed {
		h.closed = true
		close(h.ch)
	}
}

// tcpConn is the proxy's side of a TCP connection to an endpoint (client or
// target). Read blocks until the endpoint has sent something or closed; Write
// delivers to the endpoint at once; ReadFrom is the generic copy loop that
// net.TCPConn falls back to when splice is not available.
type zztcpConn struct {
	name     string
	in       *zzhalfPipe    // endpoint -> proxy
	out      bytes.Buffer // proxy -> endpoint: what the endpoint has received
	outEOF   bool         // the endpoint has observed end-of-stream
	closed   bool
	closedc  chan struct{}
	deadline int
	writeMu  sync.Mutex
}

func zznewTCPConn(name string) *zztcpConn {
	return &zztcpConn{name: name, in: zznewHalfPipe(), closedc: make(chan struct{})}
}

var zzerrClosedConn = errors.New("use of closed network connection")
var zzerrConnReset = errors.New("read: connection reset by peer")

func (c *zztcpConn) Read(p []byte) (int, error) {
	if c.closed {
		return 0, zzerrClosedConn
	}
	if len(c.in.rest) == 0 {
		select {
		case seg, ok := <-c.in.ch:
			if !ok {
				if c.in.reset {
					return 0, zzerrConnReset
				}
				return 0, io.EOF
			}
			c.in.rest = seg
		case <-c.closedc:
			return 0, zzerrClosedConn
		}
	}
	n := copy(p, c.in.rest)
	c.in.rest = c.in.rest[n:]
	return n, nil
}

// A real write is not one indivisible step behind the read that filled the buffer (it takes the
// descriptor's write lock first): that is a scheduling point, so the other direction may run
// between a copy loop's Read and its Write.
func (c *zztcpConn) Write(p []byte) (int, error) {
	c.writeMu.Lock()
	c.writeMu.Unlock()
	if c.closed || c.outEOF || c.in.reset {
		return 0, zzerrClosedConn
	}
	c.out.Write(p)
	return len(p), nil
}

func (c *zztcpConn) ReadFrom(r io.Reader) (int64, error) {
	var total int64
	buf := make([]byte, 8)
	for {
		n, err := r.Read(buf)
		if n > 0 {
			if _, werr := c.Write(buf[:n]); werr != nil {
				return total, werr
			}
			total += int64(n)
		}
		if err == io.EOF {
			return total, nil
		}
		if err != nil {
			return total, err
		}
	}
}

func (c *zztcpConn) Close() error {
	if !c.closed {
		c.closed = true
		c.outEOF = true
		close(c.closedc)
	}
	return nil
}

// CloseWrite shuts down the sending side: the endpoint observes end-of-stream.
func (c *zztcpConn) CloseWrite() error { c.outEOF = true; return nil }

func (c *zztcpConn) LocalAddr() net.Addr                { return zzfakeAddr("10.0.0.2:1") }
func (c *zztcpConn) RemoteAddr() net.Addr               { return zzfakeAddr("10.0.0.3:2") }
func (c *zztcpConn) SetDeadline(t time.Time) error      { c.deadline++; return nil }
func (c *zztcpConn) SetReadDeadline(t time.Time) error  { return nil }
func (c *zztcpConn) SetWriteDeadline(t time.Time) error { return nil }

// VerifC04Tunnel: a blind CONNECT tunnel with early data in the segment of the
// CONNECT head, traffic in both directions, and either end closing first.
func VerifC04Tunnel() {
	client, target := zznewTCPConn("client"), zznewTCPConn("target")
	p := NewProxy()
	dialOK := vf.Choice("dial-ok", 2) == 1
	p.SetDial(func(network, addr string) (net.Conn, error) {
		if !dialOK {
			return nil, errors.New("connection refused")
		}
		return target, nil
	})
	returned := false
	go func() {
		zzserveConn(p, client)
		returned = true
	}()

	head := []byte("CONNECT example.com:443 HTTP/1.1\r\nHost: example.com:443\r\n\r\n")
	early := vf.Bytes("early-data", vf.Choice("early-len", vf.Param("early")+1))
	var sentC, sentT []byte // everything the client / the target has sent into the tunnel
	client.in.send(append(append([]byte(nil), head...), early...))
	sentC = append(sentC, early...)
	vf.Quiesce()

	if !dialOK {
		got := zzclientView(client.out.Bytes(), []string{"CONNECT"})
		vf.Assert(len(got) == 1 && got[0].status == 502 && len(got[0].header["Warning"]) >= 1, "unreachable-target-yields-502-with-warning")
		vf.Reach("dial-failed")
		return
	}
	// the 200 has been written; everything after the head of the response is tunnel payload
	resp := client.out.Bytes()
	idx := bytes.Index(resp, []byte("\r\n\r\n"))
	vf.Assert(idx > 0 && bytes.HasPrefix(resp, []byte("HTTP/1.1 200")), "connect-answered-200")
	if idx <= 0 {
		return
	}
	headLen := idx + 4
	tunnelToClient := func() []byte { return client.out.Bytes()[headLen:] }

	// no byte may be parked in the proxy while nobody is writing
	vf.Assert(bytes.Equal(target.out.Bytes(), sentC), "target-has-every-byte-the-client-sent-so-far")

	rounds := vf.Param("rounds")
	for r := 0; r < rounds; r++ {
		a := vf.Bytes("client-bytes", vf.Choice("client-len", 3))
		b := vf.Bytes("target-bytes", vf.Choice("target-len", 3))
		if vf.Choice("client-first", 2) == 1 {
			client.in.send(a)
			target.in.send(b)
		} else {
			target.in.send(b)
			client.in.send(a)
		}
		sentC, sentT = append(sentC, a...), append(sentT, b...)
		vf.Quiesce()
		vf.Assert(bytes.Equal(target.out.Bytes(), sentC), "target-has-every-byte-the-client-sent-so-far")
		vf.Assert(bytes.Equal(tunnelToClient(), sentT), "client-has-every-byte-the-target-sent-so-far")
	}

	// one end finishes sending and closes
	clientFirst := vf.Choice("client-closes-first", 2) == 1
	abortive := vf.Choice("first-close-is-a-reset", 2) == 1 // RST instead of FIN: the proxy's read fails
	first := target
	if clientFirst {
		first = client
	}
	if abortive {
		first.in.abort()
	} else {
		first.in.closeSend()
	}
	vf.Quiesce()
	// after the close everything sent before it has arrived (also bytes parked until then)
	vf.Assert(bytes.Equal(target.out.Bytes(), sentC), "all-client-bytes-arrive-before-end-of-stream")
	vf.Assert(bytes.Equal(tunnelToClient(), sentT), "all-target-bytes-arrive-before-end-of-stream")
	if clientFirst {
		vf.Assert(target.outEOF, "target-observes-end-of-stream-promptly")
	} else {
		vf.Assert(client.outEOF, "client-observes-end-of-stream-promptly")
	}
	// the end that is still open may go on sending: an end that only finished sending (FIN)
	// still receives everything until the other end finishes as well
	late := vf.Bytes("late-bytes", vf.Choice("late-len", 3))
	if clientFirst {
		target.in.send(late)
		sentT = append(sentT, late...)
	} else {
		client.in.send(late)
		sentC = append(sentC, late...)
	}
	vf.Quiesce()
	if !abortive {
		vf.Assert(bytes.Equal(target.out.Bytes(), sentC), "bytes-sent-after-the-other-end-half-closed-still-arrive")
		vf.Assert(bytes.Equal(tunnelToClient(), sentT), "bytes-sent-after-the-other-end-half-closed-still-arrive")
	}
	// the other end closes as well: the proxy releases both connections
	if clientFirst {
		target.in.closeSend()
	} else {
		client.in.closeSend()
	}
	vf.Quiesce()
	vf.Assert(returned, "tunnel-handler-returns-when-both-ends-are-done")
	vf.Assert(client.closed && target.closed, "both-connections-released")
	vf.Reach("done")
}

// VerifC04Downstream: the same tunnel established through a downstream proxy:
// the proxy under test dials the downstream proxy, forwards the CONNECT and
// reads its answer; what follows that answer on the downstream connection
// (possibly in the same segment) is tunnel payload from the target.
func VerifC04Downstream() {
	client, down := zznewTCPConn("client"), zznewTCPConn("downstream")
	p := NewProxy()
	p.SetDownstreamProxy(&url.URL{Scheme: "http", Host: "downstream.example:3128"})
	p.SetDial(func(network, addr string) (net.Conn, error) { return down, nil })
	returned := false
	go func() {
		zzserveConn(p, client)
		returned = true
	}()
	head := []byte("CONNECT example.com:443 HTTP/1.1\r\nHost: example.com:443\r\n\r\n")
	early := vf.Bytes("early-data", vf.Choice("early-len", 2))
	var sentC, sentT []byte
	client.in.send(append(append([]byte(nil), head...), early...))
	sentC = append(sentC, early...)
	vf.Quiesce()
	// the downstream proxy has received the CONNECT and answers; the target's first bytes may
	// share the segment with that answer
	fwd := down.out.Bytes()
	fidx := bytes.Index(fwd, []byte("\r\n\r\n"))
	vf.Assert(fidx > 0 && bytes.HasPrefix(fwd, []byte("CONNECT example.com:443 ")), "connect-forwarded-to-the-downstream-proxy")
	if fidx <= 0 {
		return
	}
	fwdLen := fidx + 4
	toTarget := func() []byte { return down.out.Bytes()[fwdLen:] }
	answers := []string{"HTTP/1.1 200 OK\r\nContent-Length: 0\r\n\r\n", "HTTP/1.1 200 Connection established\r\n\r\n", "SSH-2.0-OpenSSH_8.9\r\n"}
	ai := vf.Choice("downstream-answer", len(answers))
	answer := answers[ai]
	if ai == 2 {
		// the downstream proxy does not answer in HTTP: no tunnel, a 502 with Warning for the
		// client, and the connection that was dialled is released
		down.in.send([]byte(answer))
		vf.Quiesce()
		got := zzclientView(client.out.Bytes(), []string{"CONNECT"})
		vf.Assert(len(got) == 1 && got[0].status == 502 && len(got[0].header["Warning"]) >= 1, "unreachable-target-yields-502-with-warning")
		client.in.closeSend()
		vf.Quiesce()
		vf.Assert(returned && client.closed, "tunnel-handler-returns-when-both-ends-are-done")
		vf.Assert(down.closed, "both-connections-released")
		vf.Reach("downstream-garbage")
		return
	}
	earlyT := vf.Bytes("early-target-data", vf.Choice("early-target-len", 2))
	down.in.send(append([]byte(answer), earlyT...))
	sentT = append(sentT, earlyT...)
	vf.Quiesce()

	resp := client.out.Bytes()
	idx := bytes.Index(resp, []byte("\r\n\r\n"))
	vf.Assert(idx > 0 && bytes.HasPrefix(resp, []byte("HTTP/1.1 200")), "connect-answered-200")
	if idx <= 0 {
		return
	}
	headLen := idx + 4
	tunnelToClient := func() []byte { return client.out.Bytes()[headLen:] }
	vf.Assert(bytes.Equal(toTarget(), sentC), "target-has-every-byte-the-client-sent-so-far")
	vf.Assert(bytes.Equal(tunnelToClient(), sentT), "client-has-every-byte-the-target-sent-so-far")

	a := vf.Bytes("client-bytes", vf.Choice("client-len", 3))
	b := vf.Bytes("target-bytes", vf.Choice("target-len", 3))
	if vf.Choice("client-first", 2) == 1 {
		client.in.send(a)
		down.in.send(b)
	} else {
		down.in.send(b)
		client.in.send(a)
	}
	sentC, sentT = append(sentC, a...), append(sentT, b...)
	vf.Quiesce()
	vf.Assert(bytes.Equal(toTarget(), sentC), "target-has-every-byte-the-client-sent-so-far")
	vf.Assert(bytes.Equal(tunnelToClient(), sentT), "client-has-every-byte-the-target-sent-so-far")

	clientFirst := vf.Choice("client-closes-first", 2) == 1
	if clientFirst {
		client.in.closeSend()
	} else {
		down.in.closeSend()
	}
	vf.Quiesce()
	if clientFirst {
		vf.Assert(down.outEOF, "target-observes-end-of-stream-promptly")
		down.in.closeSend()
	} else {
		vf.Assert(client.outEOF, "client-observes-end-of-stream-promptly")
		client.in.closeSend()
	}
	vf.Quiesce()
	vf.Assert(returned, "tunnel-handler-returns-when-both-ends-are-done")
	vf.Assert(client.closed && down.closed, "both-connections-released")
	vf.Reach("done")
}
