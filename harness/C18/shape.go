//go:build verif

package trafficshape

import (
	"bytes"
	"errors"
	"io/ioutil"
	"net"
	"net/http"
	"net/url"
	"strconv"
	"sync/atomic"
	"time"

	"github.com/google/martian/v3/zzverif/vf"
)

// sink is the underlying connection of a shaped connection.
type zzsink struct {
	got      bytes.Buffer
	closed   bool
	closeErr error // what Close reports (a peer that is gone, a connection closed before)
}

func (s *zzsink) Read(b []byte) (int, error)         { return 0, nil }
func (s *zzsink) Write(b []byte) (int, error)        { s.got.Write(b); return len(b), nil }
func (s *zzsink) Close() error                       { s.closed = true; return s.closeErr }
func (s *zzsink) LocalAddr() net.Addr                { return nil }
func (s *zzsink) RemoteAddr() net.Addr               { return nil }
func (s *zzsink) SetDeadline(t time.Time) error      { return nil }
func (s *zzsink) SetReadDeadline(t time.Time) error  { return nil }
func (s *zzsink) SetWriteDeadline(t time.Time) error { return nil }

// Engine-side model of (*Bucket).closed: the drain tick (fill := 0) happens
// whenever a writer would otherwise spin on a full bucket, and may also happen
// at any earlier check.
func verifBucketClosed(b *Bucket) bool {
	full := atomic.LoadInt64(&b.fill) >= atomic.LoadInt64(&b.capacity)
	if full || (zzdrainAnywhere && atomic.LoadInt64(&b.fill) > 0 && vf.Bool("drain-tick")) {
		atomic.StoreInt64(&b.fill, 0)
	}
	select {
	case <-b.closec:
		return true
	default:
		return false
	}
}

var zzdrainAnywhere bool

var zzslept []time.Duration

func verifSleep(d time.Duration) { zzslept = append(zzslept, d) }

const zzregex = "example"

// setup installs one shape in a fresh listener, accepts a connection and
// prepares its Context exactly as proxy.go does for a matching response.
func zzsetup(shape *Shape, rangeStart, headerLen int64) (*Listener, *Conn, *zzsink) {
	l := NewListener(nil)
	l.Shapes.Lock()
	l.Shapes.M[zzregex] = &urlShape{Shape: shape}
	l.Shapes.LastModifiedTime = time.Now()
	l.Shapes.Unlock()
	s := &zzsink{}
	c := l.GetTrafficShapedConn(s)
	zzprepare(c, rangeStart, headerLen)
	return l, c, s
}

func zzprepare(c *Conn, rangeStart, headerLen int64) {
	c.Context = &Context{
		Shaping: true, Buckets: c.LocalBuckets[zzregex], GlobalBucket: c.GlobalBuckets[zzregex], URLRegex: zzregex,
		RangeStart: rangeStart, ByteOffset: rangeStart, HeaderLen: headerLen,
	}
	c.Context.NextActionInfo = c.GetNextActionFromByte(rangeStart)
	c.Context.ThrottleContext = c.GetCurrentThrottle(rangeStart)
	if c.Context.ThrottleContext.ThrottleNow {
		c.Context.Buckets.WriteBucket.SetCapacity(c.Context.ThrottleContext.Bandwidth)
	}
}

// VerifC18Write: a shape with one halt, one close action and one throttle,
// all at symbolic byte offsets, a symbolic range start, and a sequence of
// writes of head + body.
func VerifC18Write() { verifC18Write(false) }

// VerifC18Global: the same, for a shape with a small global (shared) bandwidth of which other
// connections sharing the shape have already used a symbolic part in the current interval.
func VerifC18Global() { verifC18Write(true) }

func verifC18Write(global bool) {
	zzslept = nil
	zzdrainAnywhere = vf.Param("drain-anywhere") == 1
	span := int64(vf.Param("span")) // offsets live in [0, span]
	off := func(name string) int64 {
		v := vf.Int64(name)
		vf.Assume(v >= 0 && v <= span)
		return v
	}
	shape := &Shape{URLRegex: zzregex}
	masks := []int{1, 2, 4, 3, 5, 6, 7}
	if global {
		masks = []int{0, 2, 4, 6}
		shape.MaxBandwidth = 1 + int64(vf.Choice("global-bandwidth", 3)) // 1..3 bytes per interval
	}
	mask := masks[vf.Choice("features", vf.Param("feature-sets"))]
	hasHalt, hasClose, hasThrottle := mask&1 != 0, mask&2 != 0, mask&4 != 0
	var haltAt, closeAt, thrStart, thrEnd, thrBW int64
	if hasHalt {
		haltAt = off("halt-at")
		shape.Halts = []*Halt{{Byte: haltAt, Duration: 7, Count: 1}}
	}
	if hasClose {
		closeAt = off("close-at")
		shape.CloseConnections = []*CloseConnection{{Byte: closeAt, Count: 1}}
	}
	if hasThrottle {
		thrStart, thrEnd = off("throttle-start"), off("throttle-end")
		vf.Assume(thrStart < thrEnd)
		thrBW = 1 + int64(vf.Choice("throttle-bandwidth", 3)) // 1..3 bytes per tick
		// the configuration arrives as text: "<start>-<end>"
		shape.Throttles = []*Throttle{{Bytes: strconv.FormatInt(int64(vf.Concrete(int(thrStart))), 10) + "-" + strconv.FormatInt(int64(vf.Concrete(int(thrEnd))), 10), Bandwidth: thrBW}}
	}
	err := parseShapes(&Trafficshape{Shapes: []*Shape{shape}})
	vf.Assert(err == nil, "valid-shape-accepted")
	if err != nil {
		return
	}
	rangeStart := off("range-start")
	const headerLen = 2
	_, c, s := zzsetup(shape, rangeStart, headerLen)
	if global {
		used := vf.Int64("global-budget-used-by-other-connections")
		vf.Assume(used >= 0 && used < shape.MaxBandwidth)
		atomic.StoreInt64(&c.Context.GlobalBucket.fill, used)
	}

	// binary searches agree with a linear scan
	la := -1
	for i, a := range shape.Actions {
		if a.getByte() >= rangeStart {
			la = i
			break
		}
	}
	ni := c.Context.NextActionInfo
	vf.Assert(ni.ActionNext == (la >= 0), "next-action-search-agrees-with-linear-scan")
	if ni.ActionNext && la >= 0 {
		vf.Assert(ni.ByteOffset == shape.Actions[la].getByte(), "next-action-offset-agrees-with-linear-scan")
	}

	// the response: head + body, written in up to 3 calls
	bodyLen := vf.Param("body")
	msg := vf.Bytes("response", headerLen+bodyLen)
	var sent []byte
	var forceClosed bool
	rest := msg
	for w := 0; w < 3 && len(rest) > 0 && !forceClosed; w++ {
		k := 1 + vf.Choice("write-size", len(rest))
		if w == 2 {
			k = len(rest)
		}
		before := s.got.Len()
		n, err := c.Write(rest[:k])
		vf.Assert(n == s.got.Len()-before, "write-returns-the-number-of-bytes-delivered")
		if err != nil {
			_, fc := err.(*ErrForceClose)
			vf.Assert(fc, "only-a-close-action-fails-a-write")
			forceClosed = true
			sent = append(sent, rest[:n]...)
			break
		}
		vf.Assert(n == k, "successful-write-delivers-everything")
		sent = append(sent, rest[:k]...)
		rest = rest[k:]
	}
	got := s.got.Bytes()
	vf.Assert(len(got) <= len(msg) && bytes.Equal(got, msg[:len(got)]), "delivered-bytes-are-a-prefix-of-what-was-written")

	// close action: head plus exactly the body bytes before closeAt (counted from the range start)
	bodyEnd := rangeStart + int64(bodyLen)
	closeHits := hasClose && closeAt >= rangeStart && closeAt < bodyEnd
	// a halt or throttle boundary does not stop the stream; the close action does
	if closeHits {
		vf.Assert(forceClosed, "close-action-closes")
		vf.Assert(int64(len(got)) == headerLen+(closeAt-rangeStart), "close-action-delivers-head-plus-body-before-offset")
		vf.Reach("closed")
	} else if !(hasClose && closeAt == bodyEnd && closeAt >= rangeStart) {
		vf.Assert(!forceClosed, "no-close-without-a-close-action-inside-the-body")
		vf.Assert(len(got) == len(msg), "whole-response-delivered")
		vf.Reach("complete")
	}
	// halt: at least its configured delay, when its offset lies in what was delivered
	delivered := rangeStart + int64(len(got)) - headerLen
	haltHits := hasHalt && haltAt >= rangeStart && haltAt < delivered
	if haltHits && !(hasClose && closeAt >= rangeStart && closeAt < haltAt) {
		found := false
		for _, d := range zzslept {
			if d >= 7*time.Millisecond {
				found = true
			}
		}
		vf.Assert(found, "halt-adds-its-delay")
		vf.Reach("halted")
	}
	if !hasHalt {
		for _, d := range zzslept {
			vf.Assert(d == 0, "no-delay-without-halt-or-latency")
		}
	}
	vf.Reach("done")
}

type zzcfgRW struct {
	h      http.Header
	status int
	body   bytes.Buffer
}

func (w *zzcfgRW) Header() http.Header         { return w.h }
func (w *zzcfgRW) Write(b []byte) (int, error) { return w.body.Write(b) }
func (w *zzcfgRW) WriteHeader(s int)           { w.status = s }

func zzconfigure(h *Handler, js string) int {
	w := &zzcfgRW{h: http.Header{}, status: 200}
	req := &http.Request{Method: "POST", URL: &url.URL{Path: "/shape"}, Header: http.Header{}, Body: ioutil.NopCloser(bytes.NewReader([]byte(js)))}
	h.ServeHTTP(w, req)
	return w.status
}

// VerifC18Config: configurations arrive as JSON; throttle intervals are built
// from symbolic digits. Accepted ones satisfy the validator's postcondition;
// rejected ones leave shapes, defaults and bucket capacities untouched; a
// connection accepted before a reconfiguration keeps the old view.
func VerifC18Config() {
	l := NewListener(nil)
	h := NewHandler(l)
	good := `{"trafficshape": {"default": {"bandwidth": {"up": 1000, "down": 2000}, "latency": 3}, "shapes": [{"url_regex": "example", "max_global_bandwidth": 50,
	  "throttles": [{"bytes": "0-4", "bandwidth": 10}], "halts": [{"byte": 2, "duration": 5, "count": 1}], "close_connections": [{"byte": 9, "count": 1}]}]}}`
	vf.Assert(zzconfigure(h, good) == 200, "valid-configuration-accepted")
	old := l.Shapes.M[zzregex]
	vf.Assert(old != nil, "accepted-shape-installed")
	s := &zzsink{}
	c := l.GetTrafficShapedConn(s) // accepted under the first configuration
	zzprepare(c, 0, 0)
	up, down := l.WriteBucket.Capacity(), l.ReadBucket.Capacity()
	lat, mod := l.Latency(), l.Shapes.LastModifiedTime

	digit := func(name string) string {
		d := vf.String(name, 1)
		vf.Assume(d[0] >= '0' && d[0] <= '9')
		return d
	}
	a, b, cc, d := digit("a"), digit("b"), digit("c"), digit("d")
	variants := []string{
		// two throttles with symbolic bounds
		`{"trafficshape": {"shapes": [{"url_regex": "other", "throttles": [{"bytes": "` + a + `-` + b + `", "bandwidth": 10}, {"bytes": "` + cc + `-` + d + `", "bandwidth": 20}]}]}}`,
		`{"trafficshape": {"shapes": [{"url_regex": "other", "throttles": [{"bytes": "` + a + `", "bandwidth": 10}]}]}}`,
		`{"trafficshape": {"shapes": [{"url_regex": "other", "throttles": [{"bytes": "1-5", "bandwidth": -1}]}]}}`,
		`{"trafficshape": {"shapes": [{"url_regex": "o(ther", "throttles": []}]}}`,
		`{"trafficshape": {"default": {"bandwidth": {"up": -5}}, "shapes": []}}`,
		`{"trafficshape": {"shapes": [{"url_regex": "other", "halts": [{"byte": -1, "duration": 1, "count": 1}]}]}}`,
		`{"trafficshape": {"shapes": [{"url_regex": "other", "close_connections": [{"byte": 3, "count": 0}]}]}}`,
		`{"trafficshape": {"shapes": [{"url_regex": "other"`,
		`{"nothing": 1}`,
	}
	v := vf.Choice("variant", len(variants))
	status := zzconfigure(h, variants[v])
	expectOK := false
	if v == 0 {
		// accepted iff both intervals are non-empty, ordered and do not overlap (in either order)
		an, bn, cn, dn := int(a[0]-'0'), int(b[0]-'0'), int(cc[0]-'0'), int(d[0]-'0')
		valid := an < bn && cn < dn && (bn <= cn || dn <= an)
		expectOK = valid
	}
	if expectOK {
		vf.Assert(status == 200, "valid-reconfiguration-accepted")
		vf.Assert(l.Shapes.M[zzregex] == nil && l.Shapes.M["other"] != nil, "accepted-configuration-replaces-the-old-one")
		// postcondition of the validator: throttles sorted, non-overlapping; actions sorted by byte
		sh := l.Shapes.M["other"].Shape
		for i := 1; i < len(sh.Throttles); i++ {
			vf.Assert(sh.Throttles[i-1].ByteEnd <= sh.Throttles[i].ByteStart, "accepted-throttles-do-not-overlap")
		}
		for i := 1; i < len(sh.Actions); i++ {
			vf.Assert(sh.Actions[i-1].getByte() <= sh.Actions[i].getByte(), "accepted-actions-sorted")
		}
		// the connection accepted earlier no longer matches the new map: it stops shaping
		vf.Assert(!c.CheckExistenceAndValidity(zzregex), "old-connection-does-not-see-the-new-configuration")
		vf.Reach("accepted")
	} else {
		vf.Assert(status == 400, "invalid-configuration-rejected")
		vf.Assert(l.Shapes.M[zzregex] == old && len(l.Shapes.M) == 1, "rejected-configuration-leaves-shapes")
		vf.Assert(l.WriteBucket.Capacity() == up && l.ReadBucket.Capacity() == down && l.Latency() == lat, "rejected-configuration-leaves-defaults")
		vf.Assert(l.Shapes.LastModifiedTime.Equal(mod), "rejected-configuration-leaves-modification-time")
		vf.Assert(c.CheckExistenceAndValidity(zzregex), "old-connection-keeps-its-view")
		vf.Reach("rejected")
	}
	vf.Reach("done")
}

// VerifC18Reconfigure: a new configuration for the same URL pattern is accepted
// between two writes of a response on a connection accepted earlier. The old
// connection must not run the new configuration's actions (nor consume their
// counts): the rest of its response is delivered whole.
func VerifC18Reconfigure() {
	zzslept = nil
	zzdrainAnywhere = false
	span := int64(vf.Param("span"))
	closeAt := vf.Int64("close-at")
	vf.Assume(closeAt >= 0 && closeAt <= span)
	shape := &Shape{URLRegex: zzregex, CloseConnections: []*CloseConnection{{Byte: closeAt, Count: 1}}}
	vf.Assert(parseShapes(&Trafficshape{Shapes: []*Shape{shape}}) == nil, "valid-shape-accepted")
	const headerLen = 2
	l, c, s := zzsetup(shape, 0, headerLen)
	h := NewHandler(l)
	bodyLen := vf.Param("body")
	msg := vf.Bytes("response", headerLen+bodyLen)
	k := 1 + vf.Choice("first-write", len(msg)-1)
	n, err := c.Write(msg[:k])
	closedEarly := k > headerLen && int64(k-headerLen) >= closeAt // the first write already reached the old close action
	if closedEarly {
		_, fc := err.(*ErrForceClose)
		vf.Assert(fc && int64(n) == headerLen+closeAt, "close-action-delivers-head-plus-body-before-offset")
		vf.Reach("closed")
		vf.Reach("done")
		return
	}
	vf.Assert(err == nil && n == k, "successful-write-delivers-everything")
	reconfigured := vf.Choice("reconfigured-in-between", 2) == 1
	if reconfigured {
		js := `{"trafficshape": {"shapes": [{"url_regex": "example", "halts": [{"byte": 0, "duration": 7, "count": 1}], "close_connections": [{"byte": 1, "count": 1}, {"byte": 2, "count": 1}]}]}}`
		vf.Assert(zzconfigure(h, js) == 200, "valid-reconfiguration-accepted")
	}
	n2, err2 := c.Write(msg[k:])
	got := s.got.Bytes()
	vf.Assert(bytes.Equal(got, msg[:len(got)]), "delivered-bytes-are-a-prefix-of-what-was-written")
	if reconfigured {
		vf.Assert(err2 == nil && n2 == len(msg)-k && len(got) == len(msg), "connection-accepted-before-a-reconfiguration-delivers-its-response-whole")
		for _, a := range l.Shapes.M[zzregex].Shape.Actions {
			vf.Assert(a.getCount() == 1, "new-action-counts-not-consumed-by-an-earlier-connection")
		}
		for _, d := range zzslept { // (sleeps are recorded in the engine only)
			vf.Assert(d == 0, "new-halt-does-not-apply-to-an-earlier-connection")
		}
		vf.Reach("reconfigured")
	} else if closeAt < int64(bodyLen) {
		_, fc := err2.(*ErrForceClose)
		vf.Assert(fc && int64(len(got)) == headerLen+closeAt, "close-action-delivers-head-plus-body-before-offset")
		vf.Reach("closed")
	} else if closeAt > int64(bodyLen) { // a close action exactly at the end of the body may or may not fire
		vf.Assert(err2 == nil && len(got) == len(msg), "whole-response-delivered")
	}
	vf.Reach("done")
}

// VerifC18Release: closing a shaped connection releases the buckets created for it.
func VerifC18Release() {
	shape := &Shape{URLRegex: zzregex}
	vf.Assert(parseShapes(&Trafficshape{Shapes: []*Shape{shape}}) == nil, "valid-shape-accepted")
	_, c, s := zzsetup(shape, 0, 0)
	bs := c.LocalBuckets[zzregex]
	vf.Assert(bs != nil, "per-connection-buckets-created")
	// the underlying connection may report an error from Close (its peer is gone, it was closed
	// before): the buckets created for the connection are released all the same
	if vf.Choice("underlying-close-fails", 2) == 1 {
		s.closeErr = errors.New("close: peer is gone")
	}
	c.Close()
	vf.Assert(s.closed, "underlying-connection-closed")
	if bs != nil {
		vf.Assert(bs.ReadBucket.closed() && bs.WriteBucket.closed(), "per-connection-buckets-closed-with-the-connection")
	}
	vf.Reach("done")
}
