//go:build verif

package martian

import (
	"bytes"
	"io/ioutil"
	"net/http"
	"net/url"
	"strconv"

	"github.com/google/martian/v3/trafficshape"
	"github.com/google/martian/v3/zzverif/vf"
)

type zzshapeRW struct {
	h      http.Header
	status int
}

func (w *zzshapeRW) Header() http.Header         { return w.h }
func (w *zzshapeRW) Write(b []byte) (int, error) { return len(b), nil }
func (w *zzshapeRW) WriteHeader(s int)           { w.status = s }

// VerifC18Proxy: the proxy's side of traffic shaping (proxy.go): a connection
// accepted on a shaped listener, a configuration with one close action at byte
// K for URLs matching a pattern, and a response that is the whole content or a
// 206 starting at byte R. A matching response is delivered up to (absolute)
// offset K and the connection closed; a response whose URL does not match, or
// whose range starts beyond K, is delivered whole.
func VerifC18Proxy() {
	l := trafficshape.NewListener(nil)
	h := trafficshape.NewHandler(l)
	const n = 4
	k := vf.Choice("close-at", n+2)
	js := `{"trafficshape": {"shapes": [{"url_regex": "example.com/shaped", "close_connections": [{"byte": ` + strconv.Itoa(k) + `, "count": 1}]}]}}`
	w := &zzshapeRW{h: http.Header{}, status: 200}
	h.ServeHTTP(w, &http.Request{Method: "POST", URL: &url.URL{Path: "/shape"}, Header: http.Header{}, Body: ioutil.NopCloser(bytes.NewReader([]byte(js)))})
	vf.Assert(w.status == 200, "valid-configuration-accepted")

	matches := vf.Choice("url-matches-the-pattern", 2) == 1
	path := "/other"
	if matches {
		path = "/shaped"
	}
	r := vf.Choice("range-start", 3) // 0: no Range header
	content := vf.Bytes("content", n)
	reqWire := "GET http://example.com" + path + " HTTP/1.1\r\nHost: example.com\r\n"
	if r > 0 {
		reqWire += "Range: bytes=" + strconv.Itoa(r) + "-\r\n"
	}
	if vf.Choice("client-asks-to-close", 2) == 1 {
		// the response head then gains a Connection: close line, which belongs to the head
		reqWire += "Connection: close\r\n"
	}
	reqWire += "\r\n"
	cc := zznewClientConn("client", true, []byte(reqWire))
	conn := l.GetTrafficShapedConn(cc)
	o := &zzorigin{}
	o.answer = func(i int, req *http.Request) (*http.Response, error) {
		var b bytes.Buffer
		if r > 0 {
			b.WriteString("HTTP/1.1 206 Partial Content\r\nContent-Range: bytes " + strconv.Itoa(r) + "-" + strconv.Itoa(n-1) + "/" + strconv.Itoa(n) + "\r\nContent-Length: " + strconv.Itoa(n-r) + "\r\n\r\n")
			b.Write(content[r:])
		} else {
			b.WriteString("HTTP/1.1 200 OK\r\nContent-Length: " + strconv.Itoa(n) + "\r\n\r\n")
			b.Write(content)
		}
		return zzrawResponse(b.Bytes(), req)
	}
	p := NewProxy()
	p.SetRoundTripper(o)
	zzserveConn(p, conn)

	out := cc.out.Bytes()
	idx := bytes.Index(out, []byte("\r\n\r\n"))
	vf.Assert(idx > 0, "client-receives-the-response-head")
	if idx <= 0 {
		return
	}
	body := out[idx+4:]
	sent := content[r:]
	vf.Assert(len(body) <= len(sent) && bytes.Equal(body, sent[:len(body)]), "delivered-bytes-are-a-prefix-of-what-was-written")
	switch {
	case !matches || k < r || k > n:
		vf.Assert(len(body) == len(sent), "whole-response-delivered")
		vf.Reach("whole")
	case k < n:
		// the body bytes before absolute offset k, i.e. k-r of them, then the connection is closed
		vf.Assert(len(body) == k-r, "close-action-delivers-head-plus-body-before-offset")
		vf.Assert(cc.closed >= 1, "close-action-closes")
		vf.Reach("closed")
	}
	vf.Reach("done")
}
