//go:build verif

// Package msg holds harness helpers shared by the logging/snapshot checks:
// message construction, state capture and comparison, and a reference HTTP/1.1
// serialisation written directly from the message fields.
package msg

import (
	"bytes"
	"io"
	"net/http"
	"net/url"
	"sort"
	"strconv"
	"strings"

	"github.com/google/martian/v3/zzverif/vf"
)

// Body is a message body that hands out its bytes in reads of at most Chunk
// bytes and records how it is used.
type Body struct {
	Data   []byte
	Chunk  int
	pos    int
	Closed bool
	EOFs   int
	OnEOF  func() // called when the end of the body is first reported (net/http fills in trailers then)
}

func (b *Body) Read(p []byte) (int, error) {
	if b.Closed {
		return 0, io.ErrClosedPipe
	}
	if b.pos >= len(b.Data) {
		b.EOFs++
		if b.EOFs == 1 && b.OnEOF != nil {
			b.OnEOF()
		}
		return 0, io.EOF
	}
	n := len(b.Data) - b.pos
	if b.Chunk > 0 && n > b.Chunk {
		n = b.Chunk
	}
	if n > len(p) {
		n = len(p)
	}
	copy(p, b.Data[b.pos:b.pos+n])
	b.pos += n
	return n, nil
}

func (b *Body) Close() error { b.Closed = true; return nil }

const (
	FrameLength  = 0 // Content-Length
	FrameChunked = 1
	FrameUnknown = 2 // no length, not chunked (close-delimited / HTTP/1.0 style)
)

// Spec describes a message to build.
type Spec struct {
	Framing  int
	Wire     []byte // body bytes as they travel (already content-encoded)
	Trailers bool
	// LateTrailers: as for a message parsed from the wire, the declared trailer keys are present
	// from the start but their values appear only once the body has been read to its end.
	LateTrailers bool
	Encoding     string // Content-Encoding header value ("" = none)
	ContentType  string
	Status       int
	Location     string
	Query        string
	Cookie       string
}

func apply(h http.Header, s Spec) (int64, []string, http.Header) {
	if s.Encoding != "" {
		h["Content-Encoding"] = []string{s.Encoding}
	}
	if s.ContentType != "" {
		h["Content-Type"] = []string{s.ContentType}
	}
	h["X-Multi"] = []string{"b", "a"} // repeated, and not in sorted order
	cl := int64(len(s.Wire))
	var te []string
	var tr http.Header
	switch s.Framing {
	case FrameChunked:
		cl = -1
		te = []string{"chunked"}
		if s.Trailers {
			tr = http.Header{"X-Trailer": {"t1"}}
		}
	case FrameUnknown:
		cl = -1
	}
	return cl, te, tr
}

func NewRequest(s Spec) (*http.Request, *Body) {
	b := &Body{Data: s.Wire}
	u := &url.URL{Scheme: "http", Host: "example.com", Path: "/p", RawQuery: s.Query}
	req := &http.Request{Method: "POST", URL: u, Host: "example.com", Header: http.Header{}, Proto: "HTTP/1.1", ProtoMajor: 1, ProtoMinor: 1,
		Body: b, RemoteAddr: "10.0.0.1:1234"}
	if s.Cookie != "" {
		req.Header["Cookie"] = []string{s.Cookie}
	}
	req.ContentLength, req.TransferEncoding, req.Trailer = apply(req.Header, s)
	if s.LateTrailers && req.Trailer != nil {
		full := req.Trailer
		req.Trailer = http.Header{}
		for k := range full {
			req.Trailer[k] = nil
		}
		b.OnEOF = func() {
			for k, v := range full {
				req.Trailer[k] = v
			}
		}
	}
	return req, b
}

func NewResponse(s Spec, req *http.Request) (*http.Response, *Body) {
	b := &Body{Data: s.Wire}
	st := s.Status
	if st == 0 {
		st = 200
	}
	res := &http.Response{StatusCode: st, Status: strconv.Itoa(st) + " " + http.StatusText(st), Header: http.Header{}, Proto: "HTTP/1.1", ProtoMajor: 1, ProtoMinor: 1,
		Body: b, Request: req}
	if s.Location != "" {
		res.Header["Location"] = []string{s.Location}
	}
	res.ContentLength, res.TransferEncoding, res.Trailer = apply(res.Header, s)
	if s.LateTrailers && res.Trailer != nil {
		full := res.Trailer
		res.Trailer = http.Header{}
		for k := range full {
			res.Trailer[k] = nil
		}
		b.OnEOF = func() {
			for k, v := range full {
				res.Trailer[k] = v
			}
		}
	}
	return res, b
}

// State is what must survive a logger or a snapshot untouched.
type State struct {
	Header  http.Header
	Trailer http.Header
	Length  int64
	TE      []string
	Close   bool
	Wire    []byte
}

func cloneHeader(h http.Header) http.Header {
	if h == nil {
		return nil
	}
	c := http.Header{}
	for k, v := range h {
		c[k] = append([]string(nil), v...)
	}
	return c
}

func Capture(h, tr http.Header, length int64, te []string, close bool, wire []byte) State {
	return State{cloneHeader(h), cloneHeader(tr), length, append([]string(nil), te...), close, append([]byte(nil), wire...)}
}

func sameHeader(a, b http.Header, tag string) {
	vf.Assert((a == nil) == (b == nil), tag+":presence")
	vf.Assert(len(a) == len(b), tag+":same-keys")
	for k, av := range a {
		bv, ok := b[k]
		vf.Assert(ok, tag+":key-kept")
		vf.Assert(len(av) == len(bv), tag+":same-number-of-values")
		if len(av) == len(bv) {
			for i := range av {
				vf.Assert(av[i] == bv[i], tag+":value-untouched")
			}
		}
	}
}

// Unchanged asserts the message still is what State recorded, including the
// bytes its body yields (read in small pieces) and the EOF that follows.
func (s State) Unchanged(h, tr http.Header, length int64, te []string, close bool, body io.ReadCloser, tag string) {
	sameHeader(s.Header, h, tag+":header")
	sameHeader(s.Trailer, tr, tag+":trailer")
	vf.Assert(length == s.Length, tag+":content-length-field")
	vf.Assert(len(te) == len(s.TE), tag+":transfer-encoding-field")
	if len(te) == len(s.TE) {
		for i := range te {
			vf.Assert(te[i] == s.TE[i], tag+":transfer-encoding-value")
		}
	}
	vf.Assert(close == s.Close, tag+":close-field")
	vf.Assert(body != nil, tag+":body-present")
	if body == nil {
		return
	}
	var got []byte
	buf := make([]byte, 2)
	for i := 0; i < len(s.Wire)+4; i++ {
		n, err := body.Read(buf)
		got = append(got, buf[:n]...)
		if err != nil {
			vf.Assert(err == io.EOF, tag+":body-ends-with-eof")
			break
		}
	}
	vf.Assert(bytes.Equal(got, s.Wire), tag+":body-bytes-identical")
}

// Chunked is the reference chunked coding of data as one chunk.
func Chunked(data []byte) []byte {
	var b bytes.Buffer
	if len(data) > 0 {
		b.WriteString(strconv.FormatInt(int64(len(data)), 16) + "\r\n")
		b.Write(data)
		b.WriteString("\r\n")
	}
	b.WriteString("0\r\n")
	return b.Bytes()
}

// headerLines renders headers sorted by key, as net/http writes them.
func headerLines(h http.Header, skip map[string]bool) string {
	var keys []string
	for k := range h {
		if !skip[k] {
			keys = append(keys, k)
		}
	}
	sort.Strings(keys)
	var sb strings.Builder
	for _, k := range keys {
		for _, v := range h[k] {
			sb.WriteString(k + ": " + v + "\r\n")
		}
	}
	return sb.String()
}

// ReferenceRequest serialises req (head, body per framing, trailers) the way
// RFC 7230 prescribes; withBody=false gives the head only.
func ReferenceRequest(req *http.Request, wire []byte, withBody bool) (head, body, trailer []byte) {
	var sb strings.Builder
	sb.WriteString(req.Method + " " + req.URL.String() + " HTTP/1.1\r\n")
	sb.WriteString("Host: " + req.Host + "\r\n")
	sb.WriteString(framingLines(req.TransferEncoding, req.ContentLength))
	sb.WriteString(headerLines(req.Header, map[string]bool{"Host": true, "Content-Length": true, "Transfer-Encoding": true}))
	sb.WriteString("\r\n")
	head = []byte(sb.String())
	if withBody {
		body, trailer = bodyAndTrailer(req.TransferEncoding, req.Trailer, wire)
	}
	return
}

func ReferenceResponse(res *http.Response, wire []byte, withBody bool) (head, body, trailer []byte) {
	var sb strings.Builder
	sb.WriteString("HTTP/1.1 " + res.Status + "\r\n")
	sb.WriteString(framingLines(res.TransferEncoding, res.ContentLength))
	sb.WriteString(headerLines(res.Header, map[string]bool{"Content-Length": true, "Transfer-Encoding": true}))
	sb.WriteString("\r\n")
	head = []byte(sb.String())
	if withBody {
		body, trailer = bodyAndTrailer(res.TransferEncoding, res.Trailer, wire)
	}
	return
}

func framingLines(te []string, cl int64) string {
	if len(te) > 0 {
		return "Transfer-Encoding: " + strings.Join(te, ", ") + "\r\n"
	}
	if cl >= 0 {
		return "Content-Length: " + strconv.FormatInt(cl, 10) + "\r\n"
	}
	return ""
}

func bodyAndTrailer(te []string, tr http.Header, wire []byte) (body, trailer []byte) {
	if len(te) > 0 && te[len(te)-1] == "chunked" {
		body = Chunked(wire)
		trailer = []byte(headerLines(tr, nil) + "\r\n") // trailer part ends with an empty line
		return
	}
	return append([]byte(nil), wire...), nil
}
