//go:build verif

package grpc

import (
	"bytes"
	"net/url"

	"golang.org/x/net/http2"
	"golang.org/x/net/http2/hpack"

	"github.com/google/martian/v3/h2"
	"github.com/google/martian/v3/zzverif/vf"
)

type zzdataCall struct {
	data  []byte
	isNil bool
	ended bool
}

// sinkRec is the h2 sink that stands for the destination side of the relay.
type zzsinkRec struct {
	data    []zzdataCall
	headers int
}

func (s *zzsinkRec) Data(data []byte, ended bool) error {
	s.data = append(s.data, zzdataCall{append([]byte(nil), data...), data == nil, ended})
	return nil
}
func (s *zzsinkRec) Header(h []hpack.HeaderField, ended bool, p http2.PriorityParam) error {
	s.headers++
	return nil
}
func (s *zzsinkRec) Priority(http2.PriorityParam) error             { return nil }
func (s *zzsinkRec) RSTStream(http2.ErrCode) error                  { return nil }
func (s *zzsinkRec) PushPromise(uint32, []hpack.HeaderField) error { return nil }

// passThrough is a gRPC processor that records what it is shown and forwards it unchanged.
type zzpassThrough struct {
	next Processor
	msgs []zzdataCall
}

func (p *zzpassThrough) Header(h []hpack.HeaderField, ended bool, prio http2.PriorityParam) error {
	return p.next.Header(h, ended, prio)
}
func (p *zzpassThrough) Message(data []byte, ended bool) error {
	p.msgs = append(p.msgs, zzdataCall{append([]byte(nil), data...), data == nil, ended})
	return p.next.Message(data, ended)
}

var zzencNames = []string{"identity", "gzip", "deflate", "snappy", ""}

// codecFor names the wire codec of a compressed message under a grpc-encoding.
func zzcodecFor(enc string) string {
	switch enc {
	case "gzip":
		return "gzip"
	case "deflate":
		return "deflate"
	case "snappy":
		return "snappy-stream"
	}
	return ""
}

type zzmsg struct {
	compressed bool
	plain      []byte
}

func zzwire(m zzmsg, enc string) []byte {
	body := m.plain
	if m.compressed && zzcodecFor(enc) != "" {
		body = vf.Enc(zzcodecFor(enc), m.plain)
	}
	out := []byte{0, byte(len(body) >> 24), byte(len(body) >> 16), byte(len(body) >> 8), byte(len(body))}
	if m.compressed {
		out[0] = 1
	}
	return append(out, body...)
}

// parseWire is the independent byte-level parser of a gRPC length-prefixed stream.
func zzparseWire(b []byte, enc string) ([]zzmsg, bool) {
	var out []zzmsg
	for len(b) > 0 {
		if len(b) < 5 {
			return nil, false
		}
		n := int(b[1])<<24 | int(b[2])<<16 | int(b[3])<<8 | int(b[4])
		if n < 0 || len(b) < 5+n {
			return nil, false
		}
		body := b[5 : 5+n]
		m := zzmsg{compressed: b[0] != 0}
		if m.compressed && zzcodecFor(enc) != "" {
			p, ok := vf.Dec(zzcodecFor(enc), body)
			if !ok {
				return nil, false
			}
			m.plain = p
		} else {
			m.plain = body
		}
		out = append(out, m)
		b = b[5+n:]
	}
	return out, true
}

func VerifC11Reframe() {
	maxMsgs := vf.Param("messages")
	maxFrames := vf.Param("frames")
	c2s := vf.Choice("direction", 2) == 0
	enc := zzencNames[vf.Choice("encoding", len(zzencNames))]

	// the factory may install a processor for both directions or only for the one under test
	onlyThisDirection := vf.Choice("processor-only-for-this-direction", 2) == 1
	var pt *zzpassThrough
	c2sSink, s2cSink := &zzsinkRec{}, &zzsinkRec{}
	factory := AsStreamProcessorFactory(func(u *url.URL, server, client Processor) (Processor, Processor) {
		a, b := &zzpassThrough{next: server}, &zzpassThrough{next: client}
		if c2s {
			pt = a
			if onlyThisDirection {
				return a, nil
			}
		} else {
			pt = b
			if onlyThisDirection {
				return nil, b
			}
		}
		return a, b
	})
	cp, sp := factory(&url.URL{Scheme: "https", Host: "origin"}, h2.VerifNewProcessors(c2sSink, s2cSink))
	if cp == nil {
		cp = c2sSink // no processor for that direction: the relay talks to the sink itself
	}

	hdr := []hpack.HeaderField{{Name: ":path", Value: "/svc/Method"}, {Name: "content-type", Value: "application/grpc"}}
	if enc != "" {
		// header fields come in any order: grpc-encoding after or before content-type
		if vf.Choice("encoding-before-content-type", 2) == 1 {
			hdr = []hpack.HeaderField{hdr[0], {Name: "grpc-encoding", Value: enc}, hdr[1]}
		} else {
			hdr = append(hdr, hpack.HeaderField{Name: "grpc-encoding", Value: enc})
		}
	}
	vf.Assert(cp.Header(hdr, false, http2.PriorityParam{}) == nil, "request-headers-accepted")
	proc, sink := cp, c2sSink
	if !c2s {
		vf.Assert(sp.Header(hdr, false, http2.PriorityParam{}) == nil, "response-headers-accepted")
		proc, sink = sp, s2cSink
	}

	// the message sequence
	n := vf.Choice("messages", maxMsgs+1)
	var msgs []zzmsg
	var stream []byte
	for i := 0; i < n; i++ {
		m := zzmsg{compressed: vf.Bool("compressed"), plain: vf.Bytes("payload", vf.Choice("payload-len", vf.Param("payloadlens")))}
		msgs = append(msgs, m)
		stream = append(stream, zzwire(m, enc)...)
	}
	// every way of cutting the byte stream into up to maxFrames DATA frames
	sepEnd := vf.Choice("end-stream-on-separate-empty-frame", 2) == 1
	var frames [][]byte
	rest := stream
	for f := 0; f < maxFrames-1 && len(rest) > 0; f++ {
		k := vf.Choice("cut", len(rest)+1)
		if k == len(rest) {
			break
		}
		frames = append(frames, rest[:k])
		rest = rest[k:]
	}
	frames = append(frames, rest)
	if sepEnd {
		frames = append(frames, nil)
	}
	for i, fr := range frames {
		err := proc.Data(fr, i == len(frames)-1)
		vf.Assert(err == nil, "data-accepted")
	}

	// 1. what the processor was shown
	shown := pt.msgs
	if k := len(shown); k > 0 && shown[k-1].isNil && shown[k-1].ended {
		shown = shown[:k-1] // a bare end-of-stream notification is not a message
	}
	vf.Assert(len(shown) == len(msgs), "processor-sees-every-message-once")
	if len(shown) == len(msgs) {
		for i := range msgs {
			vf.Assert(bytes.Equal(shown[i].data, msgs[i].plain), "processor-sees-decompressed-message")
		}
	}
	ends := 0
	for i, c := range pt.msgs {
		if c.ended {
			ends++
			vf.Assert(i == len(pt.msgs)-1, "processor-end-of-stream-only-on-last-call")
		}
	}
	vf.Assert(ends == 1, "processor-sees-end-of-stream-exactly-once")

	// 2. what reaches the destination
	var out []byte
	ends = 0
	for i, c := range sink.data {
		out = append(out, c.data...)
		if c.ended {
			ends++
			vf.Assert(i == len(sink.data)-1, "sink-end-stream-after-last-message")
		}
	}
	vf.Assert(ends == 1, "sink-end-stream-exactly-once")
	got, ok := zzparseWire(out, enc)
	vf.Assert(ok, "sink-bytes-parse-in-the-same-wire-format-and-encoding")
	if ok {
		vf.Assert(len(got) == len(msgs), "sink-receives-same-number-of-messages")
		if len(got) == len(msgs) {
			for i := range msgs {
				vf.Assert(got[i].compressed == msgs[i].compressed, "sink-message-compressed-flag")
				vf.Assert(bytes.Equal(got[i].plain, msgs[i].plain), "sink-message-payload")
			}
		}
	}
	vf.Reach("done")
}

// VerifC11NonGRPC: a stream without the gRPC content type passes through untouched.
func VerifC11NonGRPC() {
	c2sSink, s2cSink := &zzsinkRec{}, &zzsinkRec{}
	factory := AsStreamProcessorFactory(func(u *url.URL, server, client Processor) (Processor, Processor) {
		return &zzpassThrough{next: server}, &zzpassThrough{next: client}
	})
	cp, _ := factory(&url.URL{Scheme: "https", Host: "origin"}, h2.VerifNewProcessors(c2sSink, s2cSink))
	hdr := []hpack.HeaderField{{Name: ":path", Value: "/x"}, {Name: "content-type", Value: "text/plain"}}
	vf.Assert(cp.Header(hdr, false, http2.PriorityParam{}) == nil, "headers-accepted")
	var frames [][]byte
	nf := 1 + vf.Choice("frames", 3)
	for i := 0; i < nf; i++ {
		frames = append(frames, vf.Bytes("data", vf.Choice("len", 7)))
	}
	for i, f := range frames {
		vf.Assert(cp.Data(f, i == nf-1) == nil, "data-accepted")
	}
	vf.Assert(len(c2sSink.data) == nf, "non-grpc-same-frames")
	if len(c2sSink.data) == nf {
		for i, f := range frames {
			vf.Assert(bytes.Equal(c2sSink.data[i].data, f), "non-grpc-bytes-untouched")
			vf.Assert(c2sSink.data[i].ended == (i == nf-1), "non-grpc-end-stream-position")
		}
	}
	vf.Assert(c2sSink.headers == 1, "non-grpc-headers-forwarded")
	vf.Reach("done")
}
