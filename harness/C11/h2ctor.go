//go:build verif

package h2

// VerifNewProcessors builds a Processors pair from caller-supplied sinks (its
// fields are unexported). Overlay-only; never present in the repository.
func VerifNewProcessors(cToS, sToC Processor) *Processors {
	return &Processors{cToS: cToS, sToC: sToC}
}
