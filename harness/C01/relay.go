//go:build verif

package martian

import (
	"bytes"
	"io"
	"net/http"

	"github.com/google/martian/v3/zzverif/vf"
)

// VerifC01Relay: a sequence of requests on one client connection (pipelined or
// one per segment) through a proxy without modifiers; real net/http parsing and
// framing on both sides.
func VerifC01Relay() {
	n := vf.Param("min-requests") + vf.Choice("requests", vf.Param("requests")-vf.Param("min-requests")+1)
	methods := []string{"GET", "POST", "HEAD"}
	statuses := []int{200, 404, 204}
	reduced := vf.Param("reduced") == 1
	if reduced {
		methods, statuses = methods[:2], statuses[:1]
	}
	var reqs []zzreqSpec
	var ress []zzresSpec
	var wire [][]byte
	for i := 0; i < n; i++ {
		r := zzreqSpec{method: methods[vf.Choice("method", len(methods))]}
		if reduced {
			// sequences: concrete targets (distinct per request), one symbolic header byte
			r.absolute = i == 0 && vf.Choice("absolute-form", 2) == 1
			r.path = "/p" + string(rune('0'+i)) + "?q=" + string(rune('a'+i))
			r.hval = "h" + vf.String("x-a", 1)
		} else {
			r.absolute = vf.Choice("absolute-form", 2) == 1
			r.path = "/" + vf.String("path", 1) + "?q=" + vf.String("query", 1)
			r.hval = vf.String("x-a", 2)
			zzalnum(r.path[1:2])
			zzalnum(r.path[len(r.path)-1:])
		}
		zzalnum(r.hval)
		if r.method == "POST" {
			r.body = vf.Bytes("req-body", vf.Choice("req-body-len", vf.Param("bodylens")))
			r.chunked = !reduced && vf.Choice("req-chunked", 2) == 1
		}
		r.close = (!reduced || i == 0) && vf.Choice("req-close", 2) == 1
		reqs = append(reqs, r)
		wire = append(wire, r.wire())
		s := zzresSpec{status: statuses[vf.Choice("status", len(statuses))], framing: vf.Choice("res-framing", 3-vf.Param("reduced")), hval: vf.String("x-b", 2-vf.Param("reduced"))}
		zzalnum(s.hval)
		if s.status != 204 {
			s.body = vf.Bytes("res-body", vf.Choice("res-body-len", vf.Param("bodylens")))
		}
		s.close = (!reduced || i == 0) && vf.Choice("res-close", 2) == 1
		ress = append(ress, s)
	}
	var segs [][]byte
	if n > 1 && vf.Choice("pipelined", 2) == 1 {
		segs = [][]byte{bytes.Join(wire, nil)}
	} else {
		segs = wire
	}
	conn := zznewClientConn("client", true, segs...)
	o := &zzorigin{}
	o.answer = func(i int, req *http.Request) (*http.Response, error) {
		return zzrawResponse(ress[i].wire(), req)
	}
	p := NewProxy()
	p.SetRoundTripper(o)
	zzserveConn(p, conn)

	// how many exchanges should have been served: up to and including the first that asks to close
	served := 0
	for i := 0; i < n; i++ {
		served++
		closeDelimited := ress[i].framing == 2 && ress[i].status != 204 && reqs[i].method != "HEAD"
		if reqs[i].close || ress[i].close || closeDelimited {
			break
		}
	}
	vf.Assert(len(o.seen) == served, "origin-receives-each-request-once-until-close")
	var ms []string
	for _, r := range reqs {
		ms = append(ms, r.method)
	}
	got := zzclientView(conn.out.Bytes(), ms)
	vf.Assert(len(got) == served, "client-receives-one-response-per-request")
	for i := 0; i < served && i < len(o.seen) && i < len(got); i++ {
		s := o.seen[i]
		vf.Assert(s.method == reqs[i].method, "origin-sees-method")
		vf.Assert(s.url == "http://example.com"+reqs[i].path, "origin-sees-path-and-query")
		vf.Assert(len(s.header["X-A"]) == 1 && s.header["X-A"][0] == reqs[i].hval, "origin-sees-header-value")
		vf.Assert(len(s.header["X-M"]) == 2 && s.header["X-M"][0] == "m1" && s.header["X-M"][1] == "m2", "origin-sees-every-value-of-a-repeated-header-in-order")
		vf.Assert(bytes.Equal(s.body, reqs[i].body), "origin-sees-identical-body")
		g := got[i]
		vf.Assert(g.ok, "client-response-complete")
		vf.Assert(g.status == ress[i].status, "client-sees-status")
		vf.Assert(len(g.hval) == 1 && g.hval[0] == ress[i].hval, "client-sees-header-value")
		vf.Assert(len(g.header["X-N"]) == 2 && g.header["X-N"][0] == "n1" && g.header["X-N"][1] == "n2", "client-sees-every-value-of-a-repeated-header-in-order")
		wantBody := ress[i].body
		if reqs[i].method == "HEAD" || ress[i].status == 204 {
			wantBody = nil
		}
		vf.Assert(bytes.Equal(g.body, wantBody), "client-sees-identical-body")
	}
	vf.Assert(conn.closed >= 1, "connection-closed-when-the-loop-ends")
	vf.Reach("done")
}

// VerifC01Sequence: the same harness with 2..3 requests per connection and a
// reduced variety per request (GET/POST, Content-Length request bodies, origin
// framing by Content-Length or chunking).
func VerifC01Sequence() { VerifC01Relay() }

// VerifC01CloseDelimited: the origin delimits the first response's body by
// closing its connection (HTTP/1.0 or HTTP/1.1 status line, no Content-Length,
// not chunked) and a second request follows on the same client connection,
// pipelined or not. However the proxy re-frames that body, the client must be
// able to tell where it ends: the first response carries exactly the origin's
// bytes and, if the proxy keeps the connection, the second exchange is served
// one-to-one after it.
func VerifC01CloseDelimited() {
	methods := []string{"GET", "POST", "HEAD"}
	r1 := zzreqSpec{method: methods[vf.Choice("method", len(methods))], path: "/a?q=1", hval: "h1"}
	if r1.method == "POST" {
		r1.body = vf.Bytes("req-body", vf.Choice("req-body-len", 2))
	}
	switch vf.Choice("req-close", 3) {
	case 1:
		r1.close = true
	case 2:
		r1.http10 = true // an HTTP/1.0 client without keep-alive: the connection ends with the response
	}
	r2 := zzreqSpec{method: "GET", path: "/b?q=2", hval: "h2"}
	s1 := zzresSpec{status: 200, framing: vf.Choice("first-response-framing", 2) * 2, hval: "x", http10: vf.Choice("origin-http10", 2) == 1}
	s1.body = vf.Bytes("res-body", vf.Choice("res-body-len", vf.Param("bodylens")))
	s2 := zzresSpec{status: 200, hval: "y", body: []byte("second")}
	var segs [][]byte
	if vf.Choice("pipelined", 2) == 1 {
		segs = [][]byte{append(r1.wire(), r2.wire()...)}
	} else {
		segs = [][]byte{r1.wire(), r2.wire()}
	}
	conn := zznewClientConn("client", true, segs...)
	o := &zzorigin{}
	o.answer = func(i int, req *http.Request) (*http.Response, error) {
		if i == 0 {
			return zzrawResponse(s1.wire(), req)
		}
		return zzrawResponse(s2.wire(), req)
	}
	p := NewProxy()
	p.SetRoundTripper(o)
	zzserveConn(p, conn)

	got := zzclientView(conn.out.Bytes(), []string{r1.method, "GET"})
	vf.Assert(len(got) >= 1, "client-receives-the-first-response")
	if len(got) == 0 {
		return
	}
	want := s1.body
	if r1.method == "HEAD" {
		want = nil
	}
	vf.Assert(got[0].ok && got[0].status == 200, "client-response-complete")
	vf.Assert(bytes.Equal(got[0].body, want), "client-sees-identical-body")
	vf.Assert(len(o.seen) == len(got), "one-response-per-request-forwarded")
	if len(got) == 2 {
		// the proxy kept the connection: then the second exchange is intact too
		vf.Assert(!r1.close && !r1.http10, "connection-kept-although-the-client-asked-to-close")
		vf.Assert(got[1].ok && got[1].status == 200 && string(got[1].body) == "second" && len(got[1].hval) == 1 && got[1].hval[0] == "y", "second-response-correct-and-one-to-one")
		vf.Reach("kept")
	} else {
		vf.Assert(!bytes.Contains(conn.out.Bytes(), []byte("second")), "no-bytes-of-a-later-response-after-a-close-delimited-one")
		vf.Reach("closed")
	}
	vf.Assert(conn.closed >= 1, "connection-closed-when-the-loop-ends")
	vf.Reach("done")
}

// echoBody is the response body of a streaming origin: it yields the request
// body as the origin reads it, so the origin is still reading the request while
// the proxy is already relaying the response.
type zzechoBody struct {
	src  io.ReadCloser
	seen *[]byte
}

func (e *zzechoBody) Read(p []byte) (int, error) {
	n, err := e.src.Read(p)
	*e.seen = append(*e.seen, p[:n]...)
	return n, err
}
func (e *zzechoBody) Close() error { return nil }

// VerifC01StreamingOrigin: the origin starts answering before it has read the
// request body and echoes it (upload to a streaming endpoint). Origin and client
// must both see the whole body, byte for byte, and a second request on the same
// connection is then served one-to-one.
func VerifC01StreamingOrigin() {
	r1 := zzreqSpec{method: "POST", path: "/up?q=1", hval: "h1"}
	r1.body = vf.Bytes("req-body", vf.Choice("req-body-len", vf.Param("bodylens")))
	r1.chunked = vf.Choice("req-chunked", 2) == 1
	r2 := zzreqSpec{method: "GET", path: "/b?q=2", hval: "h2"}
	var segs [][]byte
	if vf.Choice("pipelined", 2) == 1 {
		segs = [][]byte{append(r1.wire(), r2.wire()...)}
	} else {
		segs = [][]byte{r1.wire(), r2.wire()}
	}
	conn := zznewClientConn("client", true, segs...)
	var originRead []byte
	p := NewProxy()
	seen := 0
	p.SetRoundTripper(zzroundTripFunc(func(req *http.Request) (*http.Response, error) {
		seen++
		if seen == 1 {
			return &http.Response{StatusCode: 200, Status: "200 OK", Proto: "HTTP/1.1", ProtoMajor: 1, ProtoMinor: 1,
				Header: http.Header{"X-B": {"echo"}}, TransferEncoding: []string{"chunked"}, ContentLength: -1,
				Body: &zzechoBody{src: req.Body, seen: &originRead}, Request: req}, nil
		}
		return zzrawResponse(zzresSpec{status: 200, hval: "y", body: []byte("second")}.wire(), req)
	}))
	zzserveConn(p, conn)
	got := zzclientView(conn.out.Bytes(), []string{"POST", "GET"})
	vf.Assert(len(got) == 2 && seen == 2, "client-receives-one-response-per-request")
	if len(got) != 2 {
		return
	}
	vf.Assert(got[0].ok && got[0].status == 200 && bytes.Equal(got[0].body, r1.body), "client-sees-identical-body")
	vf.Assert(bytes.Equal(originRead, r1.body), "origin-sees-identical-body")
	vf.Assert(got[1].ok && got[1].status == 200 && string(got[1].body) == "second", "second-response-correct-and-one-to-one")
	vf.Reach("done")
}

// VerifC01PartialNext: the bytes that arrive with a request may include the beginning of the
// next one (a client that sends the head of its next request early and the rest once it has
// the answer). The first request is complete, so its response reaches the client whether or
// not the second one is ever completed: here the client then stays idle, or goes away.
func VerifC01PartialNext() {
	r1 := zzreqSpec{method: "GET", path: "/a", hval: "h1"}
	if vf.Choice("first-has-body", 2) == 1 {
		r1 = zzreqSpec{method: "POST", path: "/a", hval: "h1", body: []byte("b1"), chunked: vf.Choice("first-chunked", 2) == 1}
	}
	r2 := zzreqSpec{method: "POST", path: "/b", hval: "h2", body: []byte("later")}.wire()
	cut := 1 + vf.Choice("bytes-of-the-next-request-already-there", len(r2)-1)
	goesAway := vf.Choice("client-goes-away", 2) == 1
	conn := zznewClientConn("client", goesAway, append(r1.wire(), r2[:cut]...))
	o := &zzorigin{}
	o.answer = func(i int, req *http.Request) (*http.Response, error) {
		return zzrawResponse(zzresSpec{status: 200, hval: "x", framing: vf.Choice("origin-framing", 2), body: []byte("first")}.wire(), req)
	}
	p := NewProxy()
	p.SetRoundTripper(o)
	zzserveConn(p, conn)
	vf.Assert(len(o.seen) >= 1, "the-complete-request-reaches-the-origin")
	got := zzclientView(conn.out.Bytes(), []string{r1.method})
	vf.Assert(len(got) >= 1 && got[0].ok && got[0].status == 200 && string(got[0].body) == "first", "response-to-the-complete-request-is-not-withheld")
	vf.Reach("done")
}

// VerifC01AnyMethodBody: a request body is relayed whatever the method is - also on methods
// that usually have none (GET, HEAD, OPTIONS, DELETE, TRACE) - framed by Content-Length or by
// chunking, and the request behind it on the same connection is still served.
func VerifC01AnyMethodBody() {
	methods := []string{"GET", "HEAD", "OPTIONS", "DELETE", "TRACE", "PUT", "PATCH"}
	r1 := zzreqSpec{method: methods[vf.Choice("method", len(methods))], path: "/a", hval: "h1"}
	r1.body = vf.Bytes("req-body", 1+vf.Choice("req-body-len", 2))
	r1.chunked = vf.Choice("req-chunked", 2) == 1
	r2 := zzreqSpec{method: "GET", path: "/b", hval: "h2"}
	var segs [][]byte
	if vf.Choice("pipelined", 2) == 1 {
		segs = [][]byte{append(r1.wire(), r2.wire()...)}
	} else {
		segs = [][]byte{r1.wire(), r2.wire()}
	}
	conn := zznewClientConn("client", true, segs...)
	o := &zzorigin{}
	o.answer = func(i int, req *http.Request) (*http.Response, error) {
		return zzrawResponse(zzresSpec{status: 200, hval: "x", framing: vf.Choice("origin-framing", 2), body: []byte("ok")}.wire(), req)
	}
	p := NewProxy()
	p.SetRoundTripper(o)
	zzserveConn(p, conn)
	vf.Assert(len(o.seen) == 2, "origin-receives-both-requests")
	if len(o.seen) == 2 {
		vf.Assert(o.seen[0].method == r1.method && o.seen[0].url == "http://example.com/a", "origin-sees-method-and-target")
		vf.Assert(bytes.Equal(o.seen[0].body, r1.body), "origin-sees-identical-body-whatever-the-method")
		vf.Assert(o.seen[1].method == "GET" && o.seen[1].url == "http://example.com/b" && len(o.seen[1].body) == 0, "following-request-intact")
	}
	got := zzclientView(conn.out.Bytes(), []string{r1.method, "GET"})
	vf.Assert(len(got) == 2 && got[0].ok && got[1].ok, "client-receives-one-response-per-request")
	vf.Reach("done")
}

type zzroundTripFunc func(*http.Request) (*http.Response, error)

func (f zzroundTripFunc) RoundTrip(r *http.Request) (*http.Response, error) { return f(r) }
