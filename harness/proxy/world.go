//go:build verif

package martian

import (
	"bufio"
	"bytes"
	"errors"
	"io"
	"io/ioutil"
	"net"
	"net/http"
	"strconv"
	"time"

	"github.com/google/martian/v3/zzverif/vf"
)

type zzfakeAddr string

func (a zzfakeAddr) Network() string { return "tcp" }
func (a zzfakeAddr) String() string  { return string(a) }

// clientConn is the client side of a proxied connection as the proxy sees it:
// a scripted byte source and a recording sink.
type zzclientConn struct {
	segs      [][]byte // bytes the client sends, one Read returns at most one segment
	thenEOF   bool     // after the segments: client closes (EOF); otherwise it stays idle
	out       bytes.Buffer
	closed    int
	closedc   chan struct{}
	reads     int
	writes    int
	deadline  int
	writeErr  error // if set, writes fail once failAfter bytes have been accepted
	failAfter int
	log       []string
	tag       string
}

func zznewClientConn(tag string, thenEOF bool, segs ...[]byte) *zzclientConn {
	return &zzclientConn{segs: segs, thenEOF: thenEOF, closedc: make(chan struct{}), tag: tag, failAfter: -1}
}

var zzerrConnClosed = errors.New("use of closed network connection")

func (c *zzclientConn) Read(p []byte) (int, error) {
	c.reads++
	if c.closed > 0 {
		return 0, zzerrConnClosed
	}
	for len(c.segs) > 0 && len(c.segs[0]) == 0 {
		c.segs = c.segs[1:]
	}
	if len(c.segs) > 0 {
		n := copy(p, c.segs[0])
		c.segs[0] = c.segs[0][n:]
		return n, nil
	}
	if c.thenEOF {
		return 0, io.EOF
	}
	<-c.closedc // idle client: blocks until the proxy closes the connection
	return 0, zzerrConnClosed
}

func (c *zzclientConn) Write(p []byte) (int, error) {
	c.writes++
	if c.closed > 0 {
		return 0, zzerrConnClosed
	}
	if c.failAfter >= 0 {
		room := c.failAfter - c.out.Len()
		if room < len(p) {
			if room > 0 {
				c.out.Write(p[:room])
			} else {
				room = 0
			}
			return room, c.writeErr
		}
	}
	c.out.Write(p)
	return len(p), nil
}

func (c *zzclientConn) Close() error {
	c.closed++
	if c.closed == 1 {
		close(c.closedc)
	}
	return nil
}
func (c *zzclientConn) LocalAddr() net.Addr                { return zzfakeAddr("10.0.0.2:8080") }
func (c *zzclientConn) RemoteAddr() net.Addr               { return zzfakeAddr("10.0.0.1:5555") }
func (c *zzclientConn) SetDeadline(t time.Time) error      { c.deadline++; return nil }
func (c *zzclientConn) SetReadDeadline(t time.Time) error  { c.deadline++; return nil }
func (c *zzclientConn) SetWriteDeadline(t time.Time) error { c.deadline++; return nil }

// seenReq is what the origin observed of one request.
type zzseenReq struct {
	method, url, host string
	header            http.Header
	body              []byte
	scheme            string
	tls               bool
}

// origin is the round tripper standing for the upstream server.
type zzorigin struct {
	seen   []zzseenReq
	answer func(i int, req *http.Request) (*http.Response, error)
	// wraps: the round tripper is a wrapper (tracing, retries) that works on a copy of the
	// request, so the response it returns refers to that copy
	wraps bool
}

func (o *zzorigin) RoundTrip(req *http.Request) (*http.Response, error) {
	var body []byte
	if req.Body != nil {
		body, _ = ioutil.ReadAll(req.Body)
	}
	h := http.Header{}
	for k, v := range req.Header {
		h[k] = append([]string(nil), v...)
	}
	o.seen = append(o.seen, zzseenReq{req.Method, req.URL.String(), req.Host, h, body, req.URL.Scheme, req.TLS != nil})
	res, err := o.answer(len(o.seen)-1, req)
	if o.wraps && res != nil {
		r2 := *req
		res.Request = &r2
	}
	return res, err
}

// rawResponse parses wire bytes into a response the way http.Transport does.
func zzrawResponse(raw []byte, req *http.Request) (*http.Response, error) {
	return http.ReadResponse(bufio.NewReader(bytes.NewReader(raw)), req)
}

// wireRequest renders a request as a client writes it.
type zzreqSpec struct {
	method   string
	absolute bool
	path     string
	hval     string // X-A header value
	body     []byte
	chunked  bool
	close    bool
	http10   bool // the client speaks HTTP/1.0 (no keep-alive: the connection ends with the response)
}

func (r zzreqSpec) wire() []byte {
	var b bytes.Buffer
	target := r.path
	if r.absolute {
		target = "http://example.com" + r.path
	}
	version := " HTTP/1.1"
	if r.http10 {
		version = " HTTP/1.0"
	}
	b.WriteString(r.method + " " + target + version + "\r\nHost: example.com\r\nX-A: " + r.hval + "\r\nX-M: m1\r\nx-m: m2\r\n")
	if r.close {
		b.WriteString("Connection: close\r\n")
	}
	switch {
	case r.chunked:
		b.WriteString("Transfer-Encoding: chunked\r\n\r\n")
		if len(r.body) > 0 {
			b.WriteString(strconv.FormatInt(int64(len(r.body)), 16) + "\r\n")
			b.Write(r.body)
			b.WriteString("\r\n")
		}
		b.WriteString("0\r\n\r\n")
	case len(r.body) > 0 || r.method == "POST":
		b.WriteString("Content-Length: " + strconv.Itoa(len(r.body)) + "\r\n\r\n")
		b.Write(r.body)
	default:
		b.WriteString("\r\n")
	}
	return b.Bytes()
}

// resSpec renders an origin response.
type zzresSpec struct {
	status  int
	framing int // 0 content-length, 1 chunked, 2 close-delimited
	hval    string
	body    []byte
	close   bool
	http10  bool // the origin answers with an HTTP/1.0 status line
}

func (r zzresSpec) wire() []byte {
	var b bytes.Buffer
	proto := "HTTP/1.1 "
	if r.http10 {
		proto = "HTTP/1.0 "
	}
	b.WriteString(proto + strconv.Itoa(r.status) + " " + http.StatusText(r.status) + "\r\nX-B: " + r.hval + "\r\nX-N: n1\r\nx-n: n2\r\n")
	if r.close {
		b.WriteString("Connection: close\r\n")
	}
	noBody := r.status == 204 || r.status == 304
	switch {
	case noBody:
		b.WriteString("\r\n")
	case r.framing == 1:
		b.WriteString("Transfer-Encoding: chunked\r\n\r\n")
		if len(r.body) > 0 {
			b.WriteString(strconv.FormatInt(int64(len(r.body)), 16) + "\r\n")
			b.Write(r.body)
			b.WriteString("\r\n")
		}
		b.WriteString("0\r\n\r\n")
	case r.framing == 2:
		b.WriteString("\r\n")
		b.Write(r.body)
	default:
		b.WriteString("Content-Length: " + strconv.Itoa(len(r.body)) + "\r\n\r\n")
		b.Write(r.body)
	}
	return b.Bytes()
}

// clientView parses what the proxy wrote to the client as a sequence of responses.
type zzgotRes struct {
	status int
	hval   []string
	body   []byte
	close  bool
	header http.Header
	ok     bool
}

func zzclientView(out []byte, methods []string) []zzgotRes {
	br := bufio.NewReader(bytes.NewReader(out))
	var rs []zzgotRes
	for _, m := range methods {
		if _, err := br.Peek(1); err != nil {
			break
		}
		res, err := http.ReadResponse(br, &http.Request{Method: m})
		if err != nil {
			rs = append(rs, zzgotRes{})
			break
		}
		body, berr := ioutil.ReadAll(res.Body)
		rs = append(rs, zzgotRes{status: res.StatusCode, hval: res.Header["X-B"], body: body, close: res.Close, header: res.Header, ok: berr == nil})
		if res.Close {
			break
		}
	}
	return rs
}

func zzalnum(s string) {
	for i := 0; i < len(s); i++ {
		c := s[i]
		vf.Assume((c >= 'a' && c <= 'z') || (c >= '0' && c <= '9'))
	}
}

// serveConn serves one connection through the exported API: Serve is given a listener that
// hands out the connection once and then reports that it is closed, and the handler goroutine
// Serve started is run until it has finished (or can make no more progress).
func zzserveConn(p *Proxy, conn net.Conn) {
	p.Serve(&zzoneConnListener{conn: conn})
	vf.Quiesce()
}

type zzoneConnListener struct {
	conn net.Conn
	used bool
}

func (l *zzoneConnListener) Accept() (net.Conn, error) {
	if l.used {
		return nil, net.ErrClosed
	}
	l.used = true
	return l.conn, nil
}
func (l *zzoneConnListener) Close() error   { return nil }
func (l *zzoneConnListener) Addr() net.Addr { return zzfakeAddr("10.0.0.2:8080") }
