//go:build verif

package h2

import (
	"bytes"
	"errors"
	"io"
	"net"
	"time"
)

type h2addr string

func (a h2addr) Network() string { return "tcp" }
func (a h2addr) String() string  { return string(a) }

// endpointConn is the proxy's side of a connection to an endpoint: Read blocks
// until the endpoint has sent something, closed, or the connection is closed
// locally; Write delivers at once unless the connection is broken.
type endpointConn struct {
	name     string
	in       chan []byte
	inClosed bool
	rest     []byte
	out      bytes.Buffer
	closed   bool
	closedc  chan struct{}
	failWrites bool
	gate     chan struct{} // writes block until the gate is closed (an endpoint that is slow to take bytes)
}

func newEndpointConn(name string) *endpointConn {
	return &endpointConn{name: name, in: make(chan []byte, 64), closedc: make(chan struct{})}
}

var errBrokenConn = errors.New("write: broken pipe")
var errClosedEP = errors.New("use of closed network connection")

func (c *endpointConn) send(b []byte) {
	if len(b) > 0 && !c.inClosed {
		c.in <- append([]byte(nil), b...)
	}
}

func (c *endpointConn) endpointCloses() {
	if !c.inClosed {
		c.inClosed = true
		close(c.in)
	}
}

func (c *endpointConn) Read(p []byte) (int, error) {
	if c.closed {
		return 0, errClosedEP
	}
	if len(c.rest) == 0 {
		select {
		case seg, ok := <-c.in:
			if !ok {
				return 0, io.EOF
			}
			c.rest = seg
		case <-c.closedc:
			return 0, errClosedEP
		}
	}
	n := copy(p, c.rest)
	c.rest = c.rest[n:]
	return n, nil
}

func (c *endpointConn) Write(p []byte) (int, error) {
	if c.closed {
		return 0, errClosedEP
	}
	if c.failWrites {
		return 0, errBrokenConn
	}
	if c.gate != nil {
		// the endpoint is not taking bytes yet: the write waits until it does, or until the
		// connection is closed locally, and may then turn out to have failed
		select {
		case <-c.gate:
		case <-c.closedc:
			return 0, errClosedEP
		}
		if c.failWrites {
			return 0, errBrokenConn
		}
	}
	c.out.Write(p)
	return len(p), nil
}

func (c *endpointConn) Close() error {
	if !c.closed {
		c.closed = true
		close(c.closedc)
	}
	return nil
}
func (c *endpointConn) LocalAddr() net.Addr                { return h2addr("10.0.0.2:1") }
func (c *endpointConn) RemoteAddr() net.Addr               { return h2addr("10.0.0.3:2") }
func (c *endpointConn) SetDeadline(t time.Time) error      { return nil }
func (c *endpointConn) SetReadDeadline(t time.Time) error  { return nil }
func (c *endpointConn) SetWriteDeadline(t time.Time) error { return nil }
