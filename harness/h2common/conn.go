//go:build verif

package h2

import (
	"bytes"
	"errors"
	"io"
	"net"
	"time"
)

type zzh2addr string

func (a zzh2addr) Network() string { return "tcp" }
func (a zzh2addr) String() string  { return string(a) }

// endpointConn is the proxy's side of a connection to an endpoint: Read blocks
// until the endpoint has sent something, closed, or the connection is closed
// locally; Write delivers at once unless the connection is broken.
type zzendpointConn struct {
	name     string
	in       chan []byte
	inClosed bool
	rest     []byte
	out      bytes.Buffer
	closed   bool
	closedc  chan struct{}
	failWrites bool
	gate     chan struct{} // writes block until the gate is closed (an endpoint that is slow to take bytes)
}

func zznewEndpointConn(name string) *zzendpointConn {
	return &zzendpointConn{name: name, in: make(chan []byte, 64), closedc: make(chan struct{})}
}

var zzerrBrokenConn = errors.New("write: broken pipe")
var zzerrClosedEP = errors.New("use of closed network connection")

func (c *zzendpointConn) send(b []byte) {
	if len(b) > 0 && !c.inClosed {
		c.in <- append([]byte(nil), b...)
	}
}

func (c *zzendpointConn) endpointCloses() {
	if !c.inClosed {
		c.inClosed = true
		close(c.in)
	}
}

func (c *zzendpointConn) Read(p []byte) (int, error) {
	if c.closed {
		return 0, zzerrClosedEP
	}
	if len(c.rest) == 0 {
		select {
		case seg, ok := <-c.in:
			if !ok {
				return 0, io.EOF
			}
			c.rest = seg
		case <-c.closedc:
			return 0, zzerrClosedEP
		}
	}
	n := copy(p, c.rest)
	c.rest = c.rest[n:]
	return n, nil
}

func (c *zzendpointConn) Write(p []byte) (int, error) {
	if c.closed {
		return 0, zzerrClosedEP
	}
	if c.failWrites {
		return 0, zzerrBrokenConn
	}
	if c.gate != nil {
		// the endpoint is not taking bytes yet: the write waits until it does, or until the
		// connection is closed locally, and may then turn out to have failed
		select {
		case <-c.gate:
		case <-c.closedc:
			return 0, zzerrClosedEP
		}
		if c.failWrites {
			return 0, zzerrBrokenConn
		}
	}
	c.out.Write(p)
	return len(p), nil
}

func (c *zzendpointConn) Close() error {
	if !c.closed {
		c.closed = true
		close(c.closedc)
	}
	return nil
}
func (c *zzendpointConn) LocalAddr() net.Addr                { return zzh2addr("10.0.0.2:1") }
func (c *zzendpointConn) RemoteAddr() net.Addr               { return zzh2addr("10.0.0.3:2") }
func (c *zzendpointConn) SetDeadline(t time.Time) error      { return nil }
func (c *zzendpointConn) SetReadDeadline(t time.Time) error  { return nil }
func (c *zzendpointConn) SetWriteDeadline(t time.Time) error { return nil }
