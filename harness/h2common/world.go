//go:build verif

package h2

import (
	"bytes"
	"net/url"

	"golang.org/x/net/http2"
)

// world wires two relays exactly as Config.Proxy does, over in-memory buffers,
// without starting the reader/writer goroutines: the harness feeds frames to
// processFrame and drains the output queues itself.
type zzworld struct {
	clientIn, clientOut bytes.Buffer // bytes sent by / delivered to the client
	serverIn, serverOut bytes.Buffer
	cf, sf              *http2.Framer // the relays' framers
	cw, sw              *http2.Framer // harness-side writers producing what the endpoints send
	cr, sr              *http2.Framer // harness-side readers parsing what the endpoints receive
	cToS, sToC          *relay
	debug               bool
}

func zznewWorld(factories []StreamProcessorFactory) *zzworld {
	w := &zzworld{}
	w.cf = http2.NewFramer(&w.clientOut, &w.clientIn)
	w.sf = http2.NewFramer(&w.serverOut, &w.serverIn)
	w.cw = http2.NewFramer(&w.clientIn, nil)
	w.sw = http2.NewFramer(&w.serverIn, nil)
	w.cr = http2.NewFramer(nil, &w.clientOut)
	w.sr = http2.NewFramer(nil, &w.serverOut)
	u := &url.URL{Scheme: "https", Host: "origin:443"}
	cToS := newRelay(ClientToServer, "client", "server", w.cf, w.sf, &w.debug)
	sToC := newRelay(ServerToClient, "server", "client", w.sf, w.cf, &w.debug)
	cToS.peer, sToC.peer = sToC, cToS
	cToS.processors = &streamProcessors{
		create: func(id uint32) *Processors {
			p := &Processors{cToS: &relayAdapter{id, cToS}, sToC: &relayAdapter{id, sToC}}
			for i := len(factories) - 1; i >= 0; i-- {
				a, b := factories[i](u, p)
				if a == nil {
					a = p.ForDirection(ClientToServer)
				}
				if b == nil {
					b = p.ForDirection(ServerToClient)
				}
				p = &Processors{cToS: a, sToC: b}
			}
			return p
		},
	}
	sToC.processors = cToS.processors
	w.cToS, w.sToC = cToS, sToC
	return w
}

// drain sends everything queued for output in r, as the writer goroutine does.
func zzdrain(r *relay) error {
	for len(r.output) > 0 {
		f := <-r.output
		r.destMu.Lock()
		err := f.send(r.dest)
		r.destMu.Unlock()
		if err != nil {
			return err
		}
	}
	return nil
}

// pumpClient makes the client->server relay read and process every frame the
// client has written so far; pumpServer likewise for the other direction.
func (w *zzworld) pumpClient() error {
	for w.clientIn.Len() > 0 {
		f, err := w.cf.ReadFrame()
		if err != nil {
			return err
		}
		if err := w.cToS.processFrame(f); err != nil {
			return err
		}
		if err := zzdrain(w.cToS); err != nil {
			return err
		}
		if err := zzdrain(w.sToC); err != nil {
			return err
		}
	}
	return nil
}

func (w *zzworld) pumpServer() error {
	for w.serverIn.Len() > 0 {
		f, err := w.sf.ReadFrame()
		if err != nil {
			return err
		}
		if err := w.sToC.processFrame(f); err != nil {
			return err
		}
		if err := zzdrain(w.sToC); err != nil {
			return err
		}
		if err := zzdrain(w.cToS); err != nil {
			return err
		}
	}
	return nil
}
