//go:build verif

package martian

import (
	"bytes"
	"crypto/tls"
	"net"
	"net/http"

	"bufio"
	"io"
	"time"

	"github.com/google/martian/v3/mitm"
	"github.com/google/martian/v3/trafficshape"
	"github.com/google/martian/v3/zzverif/vf"
)

// nativeTunnel drives the same scenario over a real in-memory connection with
// the real crypto/tls and a real MITM authority (replay only).
func zznativeTunnel(p *Proxy, connect, inner []byte, startsTLS bool, n int, shaped, tlsListener bool) {
	ca, priv, err := mitm.NewAuthority("verif", "verif", time.Hour)
	if err != nil {
		panic(err)
	}
	mc, err := mitm.NewConfig(ca, priv)
	if err != nil {
		panic(err)
	}
	p.SetMITM(mc)
	cc, pc := net.Pipe()
	done := make(chan struct{})
	go func() {
		defer close(done)
		defer cc.Close()
		cc.SetDeadline(time.Now().Add(5 * time.Second))
		var cc net.Conn = cc
		if tlsListener {
			// the proxy itself is reached over TLS: the CONNECT travels inside that connection
			oc := tls.Client(cc, &tls.Config{InsecureSkipVerify: true, ServerName: "proxy.test"})
			if err := oc.Handshake(); err != nil {
				return
			}
			cc = oc
		}
		cc.Write(connect)
		br := bufio.NewReader(cc)
		if res, err := http.ReadResponse(br, &http.Request{Method: "CONNECT"}); err != nil || res.StatusCode != 200 {
			return
		}
		var rw io.ReadWriter = cc
		if startsTLS {
			tc := tls.Client(cc, &tls.Config{InsecureSkipVerify: true, ServerName: "example.com"})
			if err := tc.Handshake(); err != nil {
				return
			}
			rw = tc
		}
		rw.Write(inner)
		rbr := bufio.NewReader(rw)
		for i := 0; i < n; i++ {
			res, err := http.ReadResponse(rbr, &http.Request{Method: "GET"})
			if err != nil {
				return
			}
			io.Copy(io.Discard, res.Body)
		}
	}()
	var sc net.Conn = pc
	if shaped {
		sc = trafficshape.NewListener(nil).GetTrafficShapedConn(pc)
	}
	if tlsListener {
		sc = tls.Server(sc, mc.TLS())
	}
	zzserveConn(p, sc)
	<-done
}

type zztunnelRec struct {
	scheme, host string
	secure       bool
	hasTLS       bool
	session      *Session
	hijackedConn net.Conn
	tlsName      string // req.TLS.ServerName: stands for "which connection's TLS state is attached"
}

// tunnelMod records what the modifiers are shown for every request.
type zztunnelMod struct {
	recs     []zztunnelRec
	hijackAt int // index of the request whose modifier hijacks (-1 none)
}

func (m *zztunnelMod) ModifyRequest(req *http.Request) error {
	ctx := NewContext(req)
	r := zztunnelRec{scheme: req.URL.Scheme, host: req.URL.Host, secure: ctx.Session().IsSecure(), hasTLS: req.TLS != nil, session: ctx.Session()}
	if len(m.recs) == m.hijackAt {
		c, _, err := ctx.Session().Hijack()
		vf.Assert(err == nil, "hijack-succeeds")
		r.hijackedConn = c
	}
	if req.TLS != nil {
		r.tlsName = req.TLS.ServerName
	}
	m.recs = append(m.recs, r)
	return nil
}
func (m *zztunnelMod) ModifyResponse(res *http.Response) error { return nil }

// VerifC05Tunnel: a CONNECT to example.com:443 on a proxy with MITM enabled,
// followed inside the tunnel by either a TLS hello and 1..N requests in any
// target form, or by plain HTTP.
func VerifC05Tunnel() {
	vf.TLSModel(true, "")
	startsTLS := vf.Choice("tunnel-starts-with-tls", 2) == 1
	n := 1 + vf.Choice("tunnelled-requests", vf.Param("requests"))
	var inner bytes.Buffer
	var forms []int
	for i := 0; i < n; i++ {
		f := vf.Choice("target-form", 4)
		forms = append(forms, f)
		switch f {
		case 0: // origin form with Host
			inner.WriteString("GET /o HTTP/1.1\r\nHost: example.com\r\n\r\n")
		case 1: // absolute http://
			inner.WriteString("GET http://example.com/a HTTP/1.1\r\nHost: example.com\r\n\r\n")
		case 2: // absolute https://
			inner.WriteString("GET https://example.com/s HTTP/1.1\r\nHost: example.com\r\n\r\n")
		case 3: // origin form, HTTP/1.0 without Host
			inner.WriteString("GET /nohost HTTP/1.0\r\n\r\n")
		}
	}
	connect := []byte("CONNECT example.com:443 HTTP/1.1\r\nHost: example.com:443\r\n\r\n")
	hijackAt := -1
	if vf.Choice("hijack", 2) == 1 {
		hijackAt = 1 + vf.Choice("hijack-at", n) // a tunnelled request (index 0 is the CONNECT itself)
	}
	o := &zzorigin{}
	o.answer = func(i int, req *http.Request) (*http.Response, error) {
		return zzrawResponse(zzresSpec{status: 200, hval: "o", body: []byte("ok")}.wire(), req)
	}
	m := &zztunnelMod{hijackAt: hijackAt}
	p := NewProxy()
	p.SetRoundTripper(o)
	p.SetRequestModifier(m)
	p.SetResponseModifier(m)
	// the listener the connection was accepted on: plain, or traffic-shaped (the proxy then sees
	// a *trafficshape.Conn, and wraps the decrypted connection in one as well)
	lk := vf.Choice("traffic-shaped-listener", 3)
	shaped := lk == 1
	tlsListener := lk == 2 // the proxy is served on a TLS listener: the CONNECT arrives on a TLS connection
	if vf.Symbolic() {
		var segs [][]byte
		if startsTLS {
			segs = [][]byte{connect, append([]byte{0x16, 0x01}, inner.Bytes()...)}
		} else {
			segs = [][]byte{connect, inner.Bytes()}
		}
		p.SetMITM(new(mitm.Config))
		if tlsListener {
			segs[0] = append([]byte{0x16, 0x01}, segs[0]...) // the hello of the outer connection
		}
		var cc net.Conn = zznewClientConn("client", true, segs...)
		if shaped {
			cc = trafficshape.NewListener(nil).GetTrafficShapedConn(cc)
		}
		if tlsListener {
			cc = tls.Server(cc, &tls.Config{})
		}
		zzserveConn(p, cc)
	} else {
		zznativeTunnel(p, connect, inner.Bytes(), startsTLS, n, shaped, tlsListener)
	}


	served := n
	for i, f := range forms {
		if f == 3 { // HTTP/1.0 without keep-alive: the connection closes after this exchange
			served = i + 1
			break
		}
	}
	if hijackAt >= 0 && hijackAt <= served {
		served = hijackAt
	} else {
		hijackAt = -1
	}
	vf.Assert(len(m.recs) == 1+served, "connect-and-every-tunnelled-request-reach-the-modifiers")
	if len(m.recs) != 1+served {
		return
	}
	for i := 1; i < len(m.recs); i++ {
		r := m.recs[i]
		vf.Assert(r.session == m.recs[0].session, "connect-and-tunnelled-requests-share-one-session")
		if startsTLS {
			vf.Assert(r.scheme == "https", "tunnelled-request-has-scheme-https")
			vf.Assert(r.secure, "session-marked-secure")
			vf.Assert(r.hasTLS, "tls-state-attached-to-every-tunnelled-request")
			if forms[i-1] == 3 {
				vf.Assert(r.host == "example.com:443", "host-falls-back-to-the-tunnels-authority")
			} else {
				vf.Assert(r.host == "example.com", "host-is-the-requests-host")
			}
			if tlsListener {
				vf.Assert(r.tlsName != m.recs[0].tlsName, "tunnelled-request-carries-the-tunnels-tls-state-not-the-listeners")
			}
			if r.hijackedConn != nil {
				_, isTLS := r.hijackedConn.(*tls.Conn)
				_, isShaped := r.hijackedConn.(*trafficshape.Conn)
				vf.Assert(isTLS || (shaped && isShaped), "hijacker-after-upgrade-receives-the-decrypted-connection")
			}
		} else if !tlsListener {
			vf.Assert(r.scheme == "http" && !r.secure && !r.hasTLS, "non-tls-tunnel-handled-as-plain-http-on-an-insecure-session")
		}
	}
	upstream := served
	if hijackAt >= 0 {
		upstream = hijackAt - 1
	}
	vf.Assert(len(o.seen) == upstream, "each-tunnelled-request-forwarded-once")
	for _, s := range o.seen {
		if startsTLS {
			vf.Assert(s.scheme == "https", "forwarded-upstream-with-https-never-cleartext")
		}
	}
	if startsTLS {
		vf.Reach("tls")
	} else {
		vf.Reach("plain")
	}
	vf.Reach("done")
}
