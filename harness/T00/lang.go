//go:build verif

package marbl

import (
	"errors"
	"fmt"
	"io"
	"net"

	"github.com/google/martian/v3/zzverif/vf"
)

type zzwrapErr struct{ inner error }

func (w *zzwrapErr) Error() string { return "wrap: " + w.inner.Error() }
func (w *zzwrapErr) Unwrap() error { return w.inner }

type zztoErr struct{}

func (zztoErr) Error() string   { return "timeout" }
func (zztoErr) Timeout() bool   { return true }
func (zztoErr) Temporary() bool { return false }

// VerifT4Lang: language and library semantics the harnesses rely on (array
// equality, closures over loop variables, errors.As / errors.Is chains).
func VerifT4Lang() {
	// arrays of strings compare element-wise
	var got, want [2]string
	got[0], got[1] = "", "[a ]"
	s := []string{"x"}
	for _, order := range [][2]int{{0, 1}, {1, 0}} {
		for _, k := range order {
			if k == 0 {
				want[k] = ""
			} else {
				want[k] = "[" + "a" + " ]"
			}
			s = append(s, "y")
		}
		vf.Assert(want == got, "array-of-strings-equality")
	}
	var a3, b3 [3]int
	a3[2], b3[2] = 7, 7
	vf.Assert(a3 == b3, "array-of-ints-equality")
	b3[0] = 1
	vf.Assert(a3 != b3, "array-of-ints-inequality")

	// append and copy duplicate struct elements (no aliasing between the slices)
	type cent struct {
		id   string
		done bool
	}
	st := []cent{{id: "a"}}
	out := append([]cent(nil), st...)
	out[0].done = true
	vf.Assert(!st[0].done, "append-copies-struct-elements")
	out2 := make([]cent, 1)
	copy(out2, st)
	out2[0].done = true
	vf.Assert(!st[0].done, "copy-copies-struct-elements")
	out3 := append(st[:0:0], st...)
	out3[0].id = "b"
	vf.Assert(st[0].id == "a", "append-to-empty-copies")
	arr := [2]cent{{id: "x"}, {id: "y"}}
	arr2 := arr
	arr2[0].done = true
	vf.Assert(!arr[0].done, "array-assignment-copies")
	sl := arr[:]
	sl[1].done = true
	vf.Assert(arr[1].done, "slicing-an-array-aliases-it")
	m := map[string]cent{"k": st[0]}
	c := m["k"]
	c.done = true
	vf.Assert(!m["k"].done && !st[0].done, "map-values-are-copies")
	for _, e := range st {
		e.done = true
	}
	vf.Assert(!st[0].done, "range-value-is-a-copy")

	// errors.As: concrete pointer target, interface target, through wrappers
	base := &net.OpError{Op: "dial", Net: "tcp", Err: errors.New("refused")}
	var e error = &zzwrapErr{inner: fmt.Errorf("ctx: %w", base)}
	var op *net.OpError
	vf.Assert(errors.As(e, &op) && op == base, "errors-as-finds-concrete-type-through-wrappers")
	var ne net.Error
	vf.Assert(errors.As(e, &ne), "errors-as-finds-interface")
	var te interface{ Timeout() bool }
	vf.Assert(errors.As(error(zztoErr{}), &te) && te.Timeout(), "errors-as-anonymous-interface")
	var we *zzwrapErr
	vf.Assert(!errors.As(io.EOF, &we), "errors-as-no-match")
	vf.Assert(errors.Is(e, base) && !errors.Is(e, io.EOF), "errors-is-through-wrappers")
	vf.Reach("done")
}
