//go:build verif

package marbl

import (
	"errors"
	"io"

	"github.com/google/martian/v3/zzverif/vf"
)

func VerifT1() {
	var f Frame
	var err error = io.EOF
	a := f == nil
	b := err == nil
	vf.Dump(a)
	vf.Dump(b)
	vf.Dump(a != b)
	vf.Assert(a != b, "t1")
	e2 := errors.New("x")
	vf.Assert(e2 != nil, "t2")
	x := vf.Byte("x")
	if x > 10 {
		vf.Assert(x >= 11, "t3")
		vf.Reach("big")
	} else {
		vf.Assert(x <= 10, "t4")
		vf.Reach("small")
	}
	vf.Reach("done")
}
