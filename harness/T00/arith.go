//go:build verif

package marbl

import (
	"github.com/google/martian/v3/zzverif/vf"
)

// VerifT3Arith: facts about Go's integer semantics, each stated through a
// different operation than the one under test, for ALL values of the symbolic
// operands. A wrong encoding of an operator makes z3 return a counterexample.
func VerifT3Arith() {
	x, y := vf.Uint8("x"), vf.Uint8("y")
	// wrap-around addition and subtraction vs 16-bit arithmetic
	vf.Assert(uint16(x+y) == (uint16(x)+uint16(y))&0xff, "uint8-add-wraps")
	vf.Assert(uint16(x-y) == (uint16(x)+256-uint16(y))&0xff, "uint8-sub-wraps")
	vf.Assert(uint16(x*y)&0xff == (uint16(x)*uint16(y))&0xff, "uint8-mul-wraps")
	// shifts: counts >= width give 0 (unsigned) / sign fill (signed)
	s := vf.Uint8("shift")
	vf.Assert(s < 8 || x<<s == 0, "shl-by-width-or-more-is-zero")
	vf.Assert(s < 8 || x>>s == 0, "shr-by-width-or-more-is-zero")
	sx := int8(x)
	vf.Assert(s < 8 || (sx>>s == 0) == (sx >= 0), "signed-shr-fills-with-sign")
	vf.Assert(s >= 8 || uint16(x<<s) == (uint16(x)<<s)&0xff, "shl-small-counts")
	// signed division truncates toward zero; remainder has the sign of the dividend
	a, b := vf.Int8("a"), vf.Int8("b")
	if b != 0 && !(a == -128 && b == -1) {
		q, r := a/b, a%b
		vf.Assert(int16(q)*int16(b)+int16(r) == int16(a), "div-rem-identity")
		vf.Assert(r == 0 || (r < 0) == (a < 0), "rem-has-sign-of-dividend")
		ab := int16(b)
		if ab < 0 {
			ab = -ab
		}
		ar := int16(r)
		if ar < 0 {
			ar = -ar
		}
		vf.Assert(ar < ab, "rem-smaller-than-divisor")
		vf.Reach("div")
	}
	// conversions: sign extension, zero extension, truncation
	vf.Assert(int16(int8(x)) == int16(x) || int16(int8(x)) == int16(x)-256, "int8-conversion")
	vf.Assert((int8(x) < 0) == (x >= 128), "sign-bit")
	w := vf.Uint32("w")
	vf.Assert(uint8(w) == uint8(w&0xff) && uint16(uint8(w)) == uint16(w&0xff), "truncation")
	vf.Assert(uint64(w)<<32>>32 == uint64(w), "zero-extension")
	vf.Assert(int64(int32(w)) == int64(w) || int64(int32(w)) == int64(w)-(1<<32), "sign-extension-32")
	// comparisons: signed vs unsigned
	vf.Assert((x < y) == (uint16(x) < uint16(y)), "unsigned-less")
	vf.Assert((int8(x) < int8(y)) == (int16(int8(x)) < int16(int8(y))), "signed-less")
	// bit operations
	vf.Assert(x&^y == x&(^y), "and-not")
	vf.Assert(x^y == (x|y)&^(x&y), "xor")
	// strings with symbolic bytes
	str := vf.String("s", 3)
	vf.Assert(len(str) == 3 && str[1:] == str[1:3] && (str[:1]+str[1:]) == str, "string-slicing-and-concat")
	vf.Assert((str < "b") == (str[0] < 'b'), "string-order-first-byte-decides-against-one-byte-string")
	bs := []byte(str)
	bs[0] = 'Z'
	vf.Assert(str[0] == vf.Byte("zz") || true, "dummy")
	vf.Assert(string(bs)[0] == 'Z' && string(bs)[1:] == str[1:], "byte-slice-copy-does-not-alias-string")
	// table lookup by symbolic index
	var tab [256]uint8
	for i := range tab {
		tab[i] = uint8(i) ^ 0x20
	}
	vf.Assert(tab[x] == x^0x20, "symbolic-index-into-table")
	// maps with symbolic keys
	m := map[uint8]int{1: 10, 2: 20}
	v, ok := m[x]
	vf.Assert(ok == (x == 1 || x == 2), "map-lookup-symbolic-key-presence")
	vf.Assert(!ok || v == int(x)*10, "map-lookup-symbolic-key-value")
	vf.Reach("done")
}
