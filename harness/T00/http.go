//go:build verif

package marbl

import (
	"bufio"
	"bytes"
	"io/ioutil"
	"net/http"

	"github.com/google/martian/v3/zzverif/vf"
)

func VerifT2HTTP() {
	raw := "POST /a?b=c HTTP/1.1\r\nHost: example.com\r\nContent-Length: 3\r\nX-A: 1\r\n\r\nabc"
	req, err := http.ReadRequest(bufio.NewReader(bytes.NewReader([]byte(raw))))
	if err != nil {
		vf.Dump(err.Error())
	}
	vf.Assert(err == nil, "readrequest")
	vf.Assert(req.Method == "POST" && req.Host == "example.com" && req.ContentLength == 3, "fields")
	b, _ := ioutil.ReadAll(req.Body)
	vf.Assert(string(b) == "abc", "body")
	res := &http.Response{StatusCode: 200, Proto: "HTTP/1.1", ProtoMajor: 1, ProtoMinor: 1, Header: http.Header{"X-B": {"2"}}, ContentLength: 2, Body: ioutil.NopCloser(bytes.NewReader([]byte("hi"))), Request: req}
	var out bytes.Buffer
	err = res.Write(&out)
	vf.Assert(err == nil, "write")
	vf.Dump(out.String())
	vf.Reach("done")
}
