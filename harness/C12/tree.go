//go:build verif

package martianhttp

import (
	"bytes"
	"io/ioutil"
	"net/http"
	"net/url"
	"strconv"
	"strings"

	"github.com/google/martian/v3"
	_ "github.com/google/martian/v3/cookie"
	_ "github.com/google/martian/v3/fifo"
	_ "github.com/google/martian/v3/header"
	_ "github.com/google/martian/v3/martianurl"
	_ "github.com/google/martian/v3/method"
	"github.com/google/martian/v3/parse"
	_ "github.com/google/martian/v3/priority"
	_ "github.com/google/martian/v3/querystring"
	"github.com/google/martian/v3/zzverif/vf"
)

const (
	zznLeaf = iota
	zznErrLeaf
	zznFifo
	zznPrio
	zznFilter
)

// rnode is the reference (abstract) configuration tree built next to the JSON text.
type zzrnode struct {
	kind     int
	label    string
	req, res bool // message kinds named by the node's scope
	agg      bool
	kids     []*zzrnode
	prios    []int64
	cond     int // filter: index of the X-Cond-i header tested
	els      *zzrnode
}

type zzgen struct {
	labels int
	conds  int
	scopes int // number of scope variants used below the root
}

var zzscopeJSON = []string{"", `"scope": ["request", "response"], `, `"scope": ["request"], `, `"scope": ["response"], `, `"scope": [], `}
var zzscopeReq = []bool{true, true, true, false, false}
var zzscopeRes = []bool{true, true, false, true, false}

func (g *zzgen) node(depth, fanout int, root bool) (string, *zzrnode) {
	n := &zzrnode{}
	ns := g.scopes
	if root {
		ns = len(zzscopeJSON)
	}
	sc := vf.Choice("scope", ns)
	n.req, n.res = zzscopeReq[sc], zzscopeRes[sc]
	scope := zzscopeJSON[sc]
	kinds := 2
	if depth > 0 {
		kinds = 5
	}
	n.kind = vf.Choice("node", kinds)
	if root && depth > 0 {
		n.kind = 2 + vf.Choice("root", 3)
	}
	switch n.kind {
	case zznLeaf:
		g.labels++
		n.label = "L" + strconv.Itoa(g.labels)
		return `{"header.Append": {` + scope + `"name": "X-Trace", "value": "` + n.label + `"}}`, n
	case zznErrLeaf:
		return `{"header.Append": {` + scope + `"name": "Content-Length", "value": "1"}}`, n
	case zznFifo:
		n.agg = vf.Choice("aggregate", 2) == 1
		k := 1 + vf.Choice("children", fanout)
		js := `{"fifo.Group": {` + scope
		if n.agg {
			js += `"aggregateErrors": true, `
		}
		js += `"modifiers": [`
		for i := 0; i < k; i++ {
			cj, c := g.node(depth-1, fanout, false)
			if i > 0 {
				js += ", "
			}
			js += cj
			n.kids = append(n.kids, c)
		}
		return js + `]}}`, n
	case zznPrio:
		k := 1 + vf.Choice("children", fanout)
		js := `{"priority.Group": {` + scope + `"modifiers": [`
		for i := 0; i < k; i++ {
			d := vf.String("priority", 1) // one symbolic decimal digit
			vf.Assume(d[0] >= '0' && d[0] <= '9')
			cj, c := g.node(depth-1, fanout, false)
			if i > 0 {
				js += ", "
			}
			js += `{"priority": ` + d + `, "modifier": ` + cj + `}`
			n.kids = append(n.kids, c)
			n.prios = append(n.prios, int64(d[0]-'0'))
		}
		return js + `]}}`, n
	default: // nFilter
		g.conds++
		n.cond = g.conds
		tj, t := g.node(depth-1, fanout, false)
		n.kids = []*zzrnode{t}
		js := `{"header.Filter": {` + scope + `"name": "X-Cond-` + strconv.Itoa(n.cond) + `", "value": "1", "modifier": ` + tj
		if vf.Choice("else", 2) == 1 {
			ej, e := g.node(depth-1, fanout, false)
			n.els = e
			js += `, "else": ` + ej
		}
		return js + `}}`, n
	}
}

// eval is the depth-first reference evaluation: it appends leaf labels to
// trace and returns the number of errors reported by the node.
func (n *zzrnode) eval(isReq bool, conds []bool, trace *[]string) int {
	if (isReq && !n.req) || (!isReq && !n.res) {
		return 0
	}
	switch n.kind {
	case zznLeaf:
		*trace = append(*trace, n.label)
		return 0
	case zznErrLeaf:
		return 1
	case zznFifo:
		total := 0
		for _, c := range n.kids {
			if e := c.eval(isReq, conds, trace); e > 0 {
				if !n.agg {
					return e
				}
				total += e
			}
		}
		return total
	case zznPrio:
		// descending priority, the later-listed first among equals
		order := []int{}
		for i := range n.kids {
			pos := len(order)
			for j, o := range order {
				if n.prios[i] >= n.prios[o] {
					pos = j
					break
				}
			}
			order = append(order, 0)
			copy(order[pos+1:], order[pos:])
			order[pos] = i
		}
		for _, i := range order {
			if e := n.kids[i].eval(isReq, conds, trace); e > 0 {
				return e
			}
		}
		return 0
	default:
		if conds[n.cond] {
			return n.kids[0].eval(isReq, conds, trace)
		}
		if n.els != nil {
			return n.els.eval(isReq, conds, trace)
		}
		return 0
	}
}

func zzcountErrors(err error) int {
	if err == nil {
		return 0
	}
	if me, ok := err.(*martian.MultiError); ok {
		return len(me.Errors())
	}
	return 1
}

type zzmessage struct {
	req   *http.Request
	res   *http.Response
	conds []bool
}

// newMessage builds a request/response pair whose X-Cond-i headers carry one
// symbolic byte each, so every filter condition can be true or false.
func zznewMessage(nconds int) zzmessage {
	m := zzmessage{conds: make([]bool, nconds+1)}
	req := &http.Request{Method: "GET", URL: &url.URL{Scheme: "http", Host: "h", Path: "/"}, Host: "h", Header: http.Header{}, ContentLength: 5,
		Proto: "HTTP/1.1", ProtoMajor: 1, ProtoMinor: 1, Body: ioutil.NopCloser(bytes.NewReader([]byte("12345")))}
	res := &http.Response{StatusCode: 200, Header: http.Header{}, ContentLength: 5, Request: req, Proto: "HTTP/1.1", ProtoMajor: 1, ProtoMinor: 1,
		Body: ioutil.NopCloser(bytes.NewReader([]byte("12345")))}
	for i := 1; i <= nconds; i++ {
		v := vf.String("cond", 1)
		m.conds[i] = v == "1"
		req.Header["X-Cond-"+strconv.Itoa(i)] = []string{v}
		res.Header["X-Cond-"+strconv.Itoa(i)] = []string{v}
	}
	m.req, m.res = req, res
	return m
}

func zzsameTrace(got, want []string, tag string) {
	vf.Assert(len(got) == len(want), tag+":same-number-of-leaf-applications")
	if len(got) == len(want) {
		for i := range got {
			vf.Assert(got[i] == want[i], tag+":leaf-order")
		}
	}
}

// run applies the parsed configuration to a fresh message and compares with the reference.
func zzrun(r *parse.Result, root *zzrnode, nconds int, tag string) {
	m := zznewMessage(nconds)
	isReq := vf.Choice("message-kind", 2) == 0
	var want []string
	wantErrs := root.eval(isReq, m.conds, &want)
	var err error
	var got []string
	if isReq {
		if mod := r.RequestModifier(); mod != nil {
			err = mod.ModifyRequest(m.req)
		}
		got = m.req.Header["X-Trace"]
	} else {
		if mod := r.ResponseModifier(); mod != nil {
			err = mod.ModifyResponse(m.res)
		}
		got = m.res.Header["X-Trace"]
	}
	zzsameTrace(got, want, tag)
	vf.Assert(zzcountErrors(err) == wantErrs, tag+":every-error-reported-once")
}

// VerifC12Tree: every configuration tree within the bound evaluates like the
// depth-first reference.
func VerifC12Tree() {
	g := &zzgen{scopes: vf.Param("scopes")}
	js, root := g.node(vf.Param("depth"), vf.Param("fanout"), true)
	r, err := parse.FromJSON([]byte(js))
	vf.Assert(err == nil, "valid-configuration-accepted")
	if err != nil {
		return
	}
	zzrun(r, root, g.conds, "tree")
	vf.Reach("done")
}

// VerifC12Priority: a priority group of 2..K leaves whose priorities are
// symbolic digits: z3 decides every order relation among them (descending
// priority, the later-listed first among equals, ties at any rank).
func VerifC12Priority() {
	k := 2 + vf.Choice("children", vf.Param("fanout")-1)
	root := &zzrnode{kind: zznPrio, req: true, res: true}
	js := `{"priority.Group": {"modifiers": [`
	for i := 0; i < k; i++ {
		d := vf.String("priority", 1)
		vf.Assume(d[0] >= '0' && d[0] <= '9')
		label := "L" + strconv.Itoa(i+1)
		if i > 0 {
			js += ", "
		}
		js += `{"priority": ` + d + `, "modifier": {"header.Append": {"name": "X-Trace", "value": "` + label + `"}}}`
		root.kids = append(root.kids, &zzrnode{kind: zznLeaf, label: label, req: true, res: true})
		root.prios = append(root.prios, int64(d[0]-'0'))
	}
	js += `]}}`
	r, err := parse.FromJSON([]byte(js))
	vf.Assert(err == nil, "valid-configuration-accepted")
	if err != nil {
		return
	}
	zzrun(r, root, 0, "priority")
	vf.Reach("done")
}

// VerifC12Filters: the other registered filters (method, query string, cookie,
// URL): the filter applies its modifier when its condition holds for the message
// and its else-branch otherwise, on requests and on responses.
func VerifC12Filters() {
	leafT := `{"header.Append": {"name": "X-Trace", "value": "T"}}`
	leafF := `{"header.Append": {"name": "X-Trace", "value": "F"}}`
	kind := vf.Choice("filter", 4)
	isReq := vf.Choice("message-kind", 2) == 0
	m := zznewMessage(0)
	var js string
	cond := false
	switch kind {
	case 0:
		js = `{"method.Filter": {"method": "post", "modifier": ` + leafT + `, "else": ` + leafF + `}}`
		m.req.Method = []string{"GET", "POST", "post", "POSTS"}[vf.Choice("method", 4)]
		cond = m.req.Method == "POST" || m.req.Method == "post"
	case 1:
		js = `{"querystring.Filter": {"name": "k", "value": "1", "modifier": ` + leafT + `, "else": ` + leafF + `}}`
		qs := []string{"j=1", "k=", "k=1", "k=0&k=1", ""}
		q := vf.Choice("query", len(qs))
		m.req.URL.RawQuery = qs[q]
		cond = q == 2 || q == 3
	case 2:
		js = `{"cookie.Filter": {"name": "c", "value": "1", "modifier": ` + leafT + `, "else": ` + leafF + `}}`
		cs := []string{"", "c=1", "c=2", "d=1; c=1"}
		c := vf.Choice("cookie", len(cs))
		if cs[c] != "" {
			if isReq {
				m.req.Header["Cookie"] = []string{cs[c]}
			} else {
				for _, one := range strings.Split(cs[c], "; ") {
					m.res.Header["Set-Cookie"] = append(m.res.Header["Set-Cookie"], one)
				}
			}
		}
		cond = c == 1 || c == 3
	default:
		js = `{"url.Filter": {"host": "example.com", "path": "/p", "modifier": ` + leafT + `, "else": ` + leafF + `}}`
		us := []struct {
			host, path string
			match      bool
		}{{"example.com", "/p", true}, {"example.com", "/q", false}, {"other.example", "/p", false}, {"example.com", "/p/", false}}
		u := us[vf.Choice("url", len(us))]
		m.req.URL.Host, m.req.URL.Path, m.req.Host = u.host, u.path, u.host
		cond = u.match
	}
	r, err := parse.FromJSON([]byte(js))
	vf.Assert(err == nil, "valid-configuration-accepted")
	if err != nil {
		return
	}
	var got []string
	if isReq {
		vf.Assert(r.RequestModifier().ModifyRequest(m.req) == nil, "filter-reports-no-error")
		got = m.req.Header["X-Trace"]
	} else {
		vf.Assert(r.ResponseModifier().ModifyResponse(m.res) == nil, "filter-reports-no-error")
		got = m.res.Header["X-Trace"]
	}
	want := "F"
	if cond {
		want = "T"
	}
	vf.Assert(len(got) == 1 && got[0] == want, "filter-applies-modifier-iff-condition-holds-else-branch-otherwise")
	vf.Reach("done")
}

type zzrw struct {
	h      http.Header
	status int
	body   bytes.Buffer
}

func (w *zzrw) Header() http.Header         { return w.h }
func (w *zzrw) Write(b []byte) (int, error) { return w.body.Write(b) }
func (w *zzrw) WriteHeader(s int)           { w.status = s }

func zzpost(m *Modifier, js string) int {
	w := &zzrw{h: http.Header{}, status: 200}
	req := &http.Request{Method: "POST", URL: &url.URL{Path: "/configure"}, Header: http.Header{}, Body: ioutil.NopCloser(bytes.NewReader([]byte(js)))}
	m.ServeHTTP(w, req)
	return w.status
}

func zztraceOf(m *Modifier, isReq bool) []string {
	msg := zznewMessage(0)
	if isReq {
		m.ModifyRequest(msg.req)
		return msg.req.Header["X-Trace"]
	}
	m.ModifyResponse(msg.res)
	return msg.res.Header["X-Trace"]
}

// VerifC12Reject: a configuration corrupted at one place (unknown modifier,
// unsupported scope, malformed JSON, trailing data behind a complete value, two keys in one object) at any depth is
// rejected as a whole; a rejected reconfiguration leaves the previous one in
// force and an accepted one replaces it completely.
func VerifC12Reject() {
	leaf := func(l string) string { return `{"header.Append": {"name": "X-Trace", "value": "` + l + `"}}` }
	bads := []string{
		`{"nosuch.Modifier": {}}`,
		`{"header.Append": {"scope": ["bogus"], "name": "X-Trace", "value": "B"}}`,
		`{"header.Append": {"name": "X-Trace", "value": "B"}`,
		`{"header.Append": {"name": "X-Trace", "value": "B"}, "fifo.Group": {"modifiers": []}}`,
		`{"header.Append": {"name": "X-Trace", "value": 7}}`,
		// a complete, valid configuration followed by more (the whole text is not one JSON value)
		leaf("B") + ` }`,
		leaf("B") + ` ` + leaf("B2"),
		leaf("B") + `x`,
	}
	bad := bads[vf.Choice("corruption", len(bads))]
	// every kind of filter that has a then- and an else-branch
	filters := []string{
		`{"header.Filter": {"name": "X-Cond-1", "value": "1", `,
		`{"querystring.Filter": {"name": "q", "value": "1", `,
		`{"url.Filter": {"host": "example.com", `,
		`{"method.Filter": {"method": "GET", `,
		`{"cookie.Filter": {"name": "c", "value": "1", `,
	}
	filter := filters[0]
	wraps := []func(string) string{
		func(s string) string { return s },
		func(s string) string { return `{"fifo.Group": {"modifiers": [` + leaf("W1") + `, ` + s + `]}}` },
		func(s string) string {
			return `{"priority.Group": {"modifiers": [{"priority": 1, "modifier": ` + leaf("W2") + `}, {"priority": 2, "modifier": ` + s + `}]}}`
		},
		func(s string) string { return filter + `"modifier": ` + s + `, "else": ` + leaf("W3") + `}}` },
		func(s string) string { return filter + `"modifier": ` + leaf("W4") + `, "else": ` + s + `}}` },
		func(s string) string {
			return `{"fifo.Group": {"modifiers": [{"fifo.Group": {"modifiers": [` + s + `]}}]}}`
		},
	}
	pos := vf.Choice("position", len(wraps))
	if pos == 3 || pos == 4 {
		filter = filters[vf.Choice("filter-kind", len(filters))]
	}
	cfg := wraps[pos](bad)
	_, err := parse.FromJSON([]byte(cfg))
	vf.Assert(err != nil, "corrupted-configuration-rejected-as-a-whole")

	m := NewModifier()
	a := `{"fifo.Group": {"modifiers": [` + leaf("A1") + `, ` + leaf("A2") + `]}}`
	vf.Assert(zzpost(m, a) == 200, "valid-post-accepted")
	isReq := vf.Choice("message-kind", 2) == 0
	zzsameTrace(zztraceOf(m, isReq), []string{"A1", "A2"}, "after-accepted-post")
	vf.Assert(zzpost(m, cfg) == 400, "corrupted-post-answered-400")
	zzsameTrace(zztraceOf(m, isReq), []string{"A1", "A2"}, "after-rejected-post")
	c := `{"header.Append": {"scope": ["request"], "name": "X-Trace", "value": "C1"}}`
	vf.Assert(zzpost(m, c) == 200, "second-valid-post-accepted")
	if isReq {
		zzsameTrace(zztraceOf(m, true), []string{"C1"}, "after-replacing-post")
	} else {
		zzsameTrace(zztraceOf(m, false), nil, "after-replacing-post")
	}
	vf.Reach("done")
}
