//go:build verif

package har

import (
	"net/http"
	"net/url"

	"github.com/google/martian/v3/zzverif/vf"
)

// Engine-side summaries of NewRequest/NewResponse (they are C16's subject).
var lastRes *Response

func verifNewRequest(req *http.Request, withBody bool) (*Request, error) {
	return &Request{Method: "GET"}, nil
}

func verifNewResponse(res *http.Response, withBody bool) (*Response, error) {
	lastRes = &Response{Status: res.StatusCode}
	return lastRes, nil
}

func mkReq() *http.Request {
	return &http.Request{Method: "GET", URL: &url.URL{Scheme: "http", Host: "h", Path: "/"}, Header: http.Header{}, Proto: "HTTP/1.1", ProtoMajor: 1, ProtoMinor: 1}
}

func mkRes(status int) *http.Response {
	return &http.Response{StatusCode: status, Header: http.Header{}, Proto: "HTTP/1.1", ProtoMajor: 1, ProtoMinor: 1, Body: http.NoBody, Request: mkReq()}
}

type mEntry struct {
	id   string
	node *Entry
	done bool
}

// buildState constructs a logger holding n entries in arrival order with the
// given ids and completion bits, by writing the representation directly.
func buildState(ids []string, done []bool) (*Logger, []mEntry) {
	l := NewLogger()
	var model []mEntry
	var first, prev *Entry
	for i, id := range ids {
		e := &Entry{ID: id, Request: &Request{Method: "GET"}, Cache: &Cache{}, Timings: &Timings{}}
		if done[i] {
			e.Response = &Response{Status: 200 + i}
		}
		l.entries[id] = e
		if first == nil {
			first = e
		} else {
			prev.next = e
		}
		prev = e
		model = append(model, mEntry{id: id, node: e, done: done[i]})
	}
	if prev != nil {
		prev.next = first
		l.tail = prev
	}
	return l, model
}

// checkState asserts the representation invariant and equality with the model.
func checkState(l *Logger, model []mEntry, tag string) {
	vf.Assert(len(l.entries) == len(model), tag+":entries-size")
	if len(model) == 0 {
		vf.Assert(l.tail == nil, tag+":empty-tail-nil")
		return
	}
	vf.Assert(l.tail != nil, tag+":tail-non-nil")
	if l.tail == nil {
		return
	}
	cur := l.tail
	for i := 0; i < len(model); i++ {
		cur = cur.next
		vf.Assert(cur != nil, tag+":list-no-nil-link")
		if cur == nil {
			return
		}
		vf.Assert(cur == model[i].node, tag+":list-order")
		vf.Assert(cur.ID == model[i].id, tag+":node-id")
		vf.Assert((cur.Response != nil) == model[i].done, tag+":node-completion")
		vf.Assert(l.entries[model[i].id] == cur, tag+":map-points-to-node")
	}
	vf.Assert(cur == l.tail, tag+":tail-is-last")
	vf.Assert(cur.next == model[0].node, tag+":circular")
}

func sameEntries(got []*Entry, want []mEntry, tag string) {
	vf.Assert(len(got) == len(want), tag+":export-length")
	if len(got) != len(want) {
		return
	}
	for i := range got {
		vf.Assert(got[i] == want[i].node, tag+":export-order")
	}
}

func symIDs(n int) []string {
	ids := make([]string, n)
	for i := range ids {
		ids[i] = vf.String("id", 2)
		for j := 0; j < i; j++ {
			vf.Assume(ids[i] != ids[j])
		}
	}
	return ids
}

// VerifC17Step: one operation with symbolic arguments from an arbitrary valid
// state of up to N retained entries (symbolic ids, symbolic completion bits).
func VerifC17Step() {
	n := vf.Choice("n", vf.Param("entries")+1)
	ids := symIDs(n)
	done := make([]bool, n)
	for i := range done {
		done[i] = vf.Bool("done")
	}
	l, model := buildState(ids, done)
	checkState(l, model, "pre")

	op := vf.Choice("op", 5)
	vf.WatchOn()
	switch op {
	case 0: // RecordRequest with an arbitrary id (new or duplicate)
		id := vf.String("arg", 2)
		err := l.RecordRequest(id, mkReq())
		vf.WatchOff()
		dup := false
		for _, m := range model {
			if m.id == id {
				dup = true
			}
		}
		if dup {
			vf.Assert(err != nil, "record-request:duplicate-rejected")
			checkState(l, model, "record-request-dup")
			vf.Reach("dup")
		} else {
			vf.Assert(err == nil, "record-request:accepted")
			e := l.entries[id]
			vf.Assert(e != nil, "record-request:present")
			if e != nil {
				vf.Assert(e.Response == nil, "record-request:pending")
				checkState(l, append(model, mEntry{id: id, node: e}), "record-request-new")
			}
			vf.Reach("new")
		}
	case 1: // RecordResponse with an arbitrary id (known or unknown)
		id := vf.String("arg", 2)
		err := l.RecordResponse(id, mkRes(299))
		vf.WatchOff()
		vf.Assert(err == nil, "record-response:no-error")
		hit := -1
		for i, m := range model {
			if m.id == id {
				hit = i
			}
		}
		if hit >= 0 {
			model[hit].done = true
			vf.Assert(model[hit].node.Response != nil, "record-response:attached")
			if vf.Symbolic() && model[hit].node.Response != nil {
				vf.Assert(model[hit].node.Response == lastRes, "record-response:own-response")
			}
			vf.Reach("known-id")
		} else {
			vf.Reach("unknown-id")
		}
		checkState(l, model, "record-response")
	case 2:
		h := l.Export()
		vf.WatchOff()
		sameEntries(h.Log.Entries, model, "export")
		checkState(l, model, "export")
		vf.Reach("export")
	case 3:
		h := l.ExportAndReset()
		vf.WatchOff()
		var completed, pending []mEntry
		for _, m := range model {
			if m.done {
				completed = append(completed, m)
			} else {
				pending = append(pending, m)
			}
		}
		sameEntries(h.Log.Entries, completed, "export-and-reset")
		checkState(l, pending, "export-and-reset")
		vf.Reach("export-and-reset")
	case 4:
		l.Reset()
		vf.WatchOff()
		checkState(l, nil, "reset")
		vf.Reach("reset")
	}
	vf.Reach("done")
}

// VerifC17Sequence: operation sequences from NewLogger over a small id
// alphabet, checked end to end against the slice model (cross-check of the
// invariant used by VerifC17Step, and of "each entry exactly once").
func VerifC17Sequence() {
	l := NewLogger()
	var model []mEntry
	exported := map[*Entry]int{}
	steps := vf.Param("steps")
	alphabet := []string{"a", "b", "c"}
	for s := 0; s < steps; s++ {
		switch vf.Choice("op", 5) {
		case 0:
			id := alphabet[vf.Choice("id", len(alphabet))]
			err := l.RecordRequest(id, mkReq())
			dup := false
			for _, m := range model {
				if m.id == id {
					dup = true
				}
			}
			vf.Assert((err != nil) == dup, "seq:duplicate-iff-present")
			if !dup {
				model = append(model, mEntry{id: id, node: l.entries[id]})
			}
		case 1:
			id := alphabet[vf.Choice("id", len(alphabet))]
			l.RecordResponse(id, mkRes(200))
			for i := range model {
				if model[i].id == id {
					model[i].done = true
				}
			}
		case 2:
			h := l.Export()
			sameEntries(h.Log.Entries, model, "seq-export")
		case 3:
			h := l.ExportAndReset()
			var completed, pending []mEntry
			for _, m := range model {
				if m.done {
					completed = append(completed, m)
				} else {
					pending = append(pending, m)
				}
			}
			sameEntries(h.Log.Entries, completed, "seq-export-and-reset")
			for _, e := range h.Log.Entries {
				exported[e]++
				vf.Assert(exported[e] == 1, "seq:exported-exactly-once")
			}
			model = pending
		case 4:
			l.Reset()
			model = nil
		}
		checkState(l, model, "seq")
	}
	vf.Reach("done")
}
