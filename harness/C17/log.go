//go:build verif

package har

import (
	"bytes"
	"net/http"
	"net/url"
	"sync"

	"github.com/google/martian/v3/zzverif/vf"
)

// Engine-side summaries of NewRequest/NewResponse (they are C16's subject).
var lastRes *Response

func verifNewRequest(req *http.Request, withBody bool) (*Request, error) {
	return &Request{Method: "GET"}, nil
}

func verifNewResponse(res *http.Response, withBody bool) (*Response, error) {
	lastRes = &Response{Status: res.StatusCode}
	return lastRes, nil
}

func mkReq() *http.Request {
	return &http.Request{Method: "GET", URL: &url.URL{Scheme: "http", Host: "h", Path: "/"}, Header: http.Header{}, Proto: "HTTP/1.1", ProtoMajor: 1, ProtoMinor: 1}
}

func mkRes(status int) *http.Response {
	return &http.Response{StatusCode: status, Header: http.Header{}, Proto: "HTTP/1.1", ProtoMajor: 1, ProtoMinor: 1, Body: http.NoBody, Request: mkReq()}
}

type mEntry struct {
	id   string
	node *Entry
	done bool
}

// buildState constructs a logger holding n entries in arrival order with the
// given ids and completion bits, by writing the representation directly.
func buildState(ids []string, done []bool) (*Logger, []mEntry) {
	l := NewLogger()
	var model []mEntry
	var first, prev *Entry
	for i, id := range ids {
		e := &Entry{ID: id, Request: &Request{Method: "GET"}, Cache: &Cache{}, Timings: &Timings{}}
		if done[i] {
			e.Response = &Response{Status: 200 + i}
		}
		l.entries[id] = e
		if first == nil {
			first = e
		} else {
			prev.next = e
		}
		prev = e
		model = append(model, mEntry{id: id, node: e, done: done[i]})
	}
	if prev != nil {
		prev.next = first
		l.tail = prev
	}
	return l, model
}

// checkState asserts the representation invariant and equality with the model.
func checkState(l *Logger, model []mEntry, tag string) {
	vf.Assert(len(l.entries) == len(model), tag+":entries-size")
	if len(model) == 0 {
		vf.Assert(l.tail == nil, tag+":empty-tail-nil")
		return
	}
	vf.Assert(l.tail != nil, tag+":tail-non-nil")
	if l.tail == nil {
		return
	}
	cur := l.tail
	for i := 0; i < len(model); i++ {
		cur = cur.next
		vf.Assert(cur != nil, tag+":list-no-nil-link")
		if cur == nil {
			return
		}
		vf.Assert(cur == model[i].node, tag+":list-order")
		vf.Assert(cur.ID == model[i].id, tag+":node-id")
		vf.Assert((cur.Response != nil) == model[i].done, tag+":node-completion")
		vf.Assert(l.entries[model[i].id] == cur, tag+":map-points-to-node")
	}
	vf.Assert(cur == l.tail, tag+":tail-is-last")
	vf.Assert(cur.next == model[0].node, tag+":circular")
}

func sameEntries(got []*Entry, want []mEntry, tag string) {
	vf.Assert(len(got) == len(want), tag+":export-length")
	if len(got) != len(want) {
		return
	}
	for i := range got {
		vf.Assert(got[i] == want[i].node, tag+":export-order")
	}
}

func symIDs(n int) []string {
	ids := make([]string, n)
	for i := range ids {
		ids[i] = vf.String("id", 2)
		for j := 0; j < i; j++ {
			vf.Assume(ids[i] != ids[j])
		}
	}
	return ids
}

// VerifC17Step: one operation with symbolic arguments from an arbitrary valid
// state of up to N retained entries (symbolic ids, symbolic completion bits).
func VerifC17Step() {
	n := vf.Choice("n", vf.Param("entries")+1)
	ids := symIDs(n)
	done := make([]bool, n)
	for i := range done {
		done[i] = vf.Bool("done")
	}
	l, model := buildState(ids, done)
	checkState(l, model, "pre")

	op := vf.Choice("op", 5)
	vf.WatchOn()
	switch op {
	case 0: // RecordRequest with an arbitrary id (new or duplicate)
		id := vf.String("arg", 2)
		err := l.RecordRequest(id, mkReq())
		vf.WatchOff()
		dup := false
		for _, m := range model {
			if m.id == id {
				dup = true
			}
		}
		if dup {
			vf.Assert(err != nil, "record-request:duplicate-rejected")
			checkState(l, model, "record-request-dup")
			vf.Reach("dup")
		} else {
			vf.Assert(err == nil, "record-request:accepted")
			e := l.entries[id]
			vf.Assert(e != nil, "record-request:present")
			if e != nil {
				vf.Assert(e.Response == nil, "record-request:pending")
				checkState(l, append(model, mEntry{id: id, node: e}), "record-request-new")
			}
			vf.Reach("new")
		}
	case 1: // RecordResponse with an arbitrary id (known or unknown)
		id := vf.String("arg", 2)
		err := l.RecordResponse(id, mkRes(299))
		vf.WatchOff()
		vf.Assert(err == nil, "record-response:no-error")
		hit := -1
		for i, m := range model {
			if m.id == id {
				hit = i
			}
		}
		if hit >= 0 {
			model[hit].done = true
			vf.Assert(model[hit].node.Response != nil, "record-response:attached")
			if vf.Symbolic() && model[hit].node.Response != nil {
				vf.Assert(model[hit].node.Response == lastRes, "record-response:own-response")
			}
			vf.Reach("known-id")
		} else {
			vf.Reach("unknown-id")
		}
		checkState(l, model, "record-response")
	case 2:
		h := l.Export()
		vf.WatchOff()
		sameEntries(h.Log.Entries, model, "export")
		checkState(l, model, "export")
		vf.Reach("export")
	case 3:
		h := l.ExportAndReset()
		vf.WatchOff()
		var completed, pending []mEntry
		for _, m := range model {
			if m.done {
				completed = append(completed, m)
			} else {
				pending = append(pending, m)
			}
		}
		sameEntries(h.Log.Entries, completed, "export-and-reset")
		checkState(l, pending, "export-and-reset")
		vf.Reach("export-and-reset")
	case 4:
		l.Reset()
		vf.WatchOff()
		checkState(l, nil, "reset")
		vf.Reach("reset")
	}
	vf.Reach("done")
}

// VerifC17Sequence: operation sequences from NewLogger over a small id
// alphabet, checked end to end against the slice model (cross-check of the
// invariant used by VerifC17Step, and of "each entry exactly once").
func VerifC17Sequence() {
	l := NewLogger()
	var model []mEntry
	exported := map[*Entry]int{}
	steps := vf.Param("steps")
	alphabet := []string{"a", "b", "c"}
	for s := 0; s < steps; s++ {
		switch vf.Choice("op", 5) {
		case 0:
			id := alphabet[vf.Choice("id", len(alphabet))]
			err := l.RecordRequest(id, mkReq())
			dup := false
			for _, m := range model {
				if m.id == id {
					dup = true
				}
			}
			vf.Assert((err != nil) == dup, "seq:duplicate-iff-present")
			if !dup {
				model = append(model, mEntry{id: id, node: l.entries[id]})
			}
		case 1:
			id := alphabet[vf.Choice("id", len(alphabet))]
			l.RecordResponse(id, mkRes(200))
			for i := range model {
				if model[i].id == id {
					model[i].done = true
				}
			}
		case 2:
			h := l.Export()
			sameEntries(h.Log.Entries, model, "seq-export")
		case 3:
			h := l.ExportAndReset()
			var completed, pending []mEntry
			for _, m := range model {
				if m.done {
					completed = append(completed, m)
				} else {
					pending = append(pending, m)
				}
			}
			sameEntries(h.Log.Entries, completed, "seq-export-and-reset")
			for _, e := range h.Log.Entries {
				exported[e]++
				vf.Assert(exported[e] == 1, "seq:exported-exactly-once")
			}
			model = pending
		case 4:
			l.Reset()
			model = nil
		}
		checkState(l, model, "seq")
	}
	vf.Reach("done")
}

// ---- concurrent executions against the sequential model ----

type cop struct {
	kind int // 0 RecordRequest, 1 RecordResponse, 2 Export, 3 ExportAndReset
	id   string
}

type cent struct {
	id   string
	done bool
}

func render(es []cent) string {
	s := "["
	for _, e := range es {
		s += e.id
		if e.done {
			s += "+"
		}
		s += " "
	}
	return s + "]"
}

// capply is the sequential specification of one operation.
func capply(st []cent, o cop) ([]cent, string) {
	switch o.kind {
	case 0:
		for _, e := range st {
			if e.id == o.id {
				return st, "duplicate"
			}
		}
		return append(append([]cent(nil), st...), cent{id: o.id}), "ok"
	case 1:
		out := append([]cent(nil), st...)
		for i := range out {
			if out[i].id == o.id {
				out[i].done = true
			}
		}
		return out, ""
	case 2:
		return st, render(st)
	default:
		var completed, pending []cent
		for _, e := range st {
			if e.done {
				completed = append(completed, e)
			} else {
				pending = append(pending, e)
			}
		}
		return pending, render(completed)
	}
}

func entriesOf(es []*Entry) []cent {
	var out []cent
	for _, e := range es {
		out = append(out, cent{id: e.ID, done: e.Response != nil})
	}
	return out
}

func runReal(l *Logger, o cop) string {
	switch o.kind {
	case 0:
		if l.RecordRequest(o.id, mkReq()) != nil {
			return "duplicate"
		}
		return "ok"
	case 1:
		l.RecordResponse(o.id, mkRes(200))
		return ""
	case 2:
		return render(entriesOf(l.Export().Log.Entries))
	default:
		return render(entriesOf(l.ExportAndReset().Log.Entries))
	}
}

// VerifC17Concurrent: two goroutines perform one operation each on a shared
// log (optionally holding one pending entry), under every schedule within the
// preemption bound. The two results and the final contents must be those of
// one of the two sequential orders of the same operations.
func VerifC17Concurrent() {
	ids := []string{"a", "b"}
	l := NewLogger()
	var st []cent
	if vf.Choice("one-pending-entry-before", 2) == 1 {
		l.RecordRequest("a", mkReq())
		st = []cent{{id: "a"}}
	}
	ops := [2]cop{}
	ops[0] = cop{kind: vf.Choice("first-goroutine-op", 2), id: ids[vf.Choice("id", 2)]}
	ops[1] = cop{kind: vf.Choice("second-goroutine-op", 4), id: ids[vf.Choice("id", 2)]}
	var got [2]string
	var wg sync.WaitGroup
	for k := 0; k < 2; k++ {
		k := k
		wg.Add(1)
		go func() {
			defer wg.Done()
			got[k] = runReal(l, ops[k])
		}()
	}
	wg.Wait()
	final := render(entriesOf(l.Export().Log.Entries))

	matches := false
	for _, order := range [][2]int{{0, 1}, {1, 0}} {
		var want [2]string
		s := st
		for _, k := range order {
			s, want[k] = capply(s, ops[k])
		}
		if want == got && render(s) == final {
			matches = true
		}
	}
	vf.Assert(matches, "concurrent-outcome-equals-a-sequential-order")
	// whatever the order, an id is listed at most once
	seen := map[string]bool{}
	for _, e := range l.Export().Log.Entries {
		vf.Assert(!seen[e.ID], "an-id-is-listed-at-most-once")
		seen[e.ID] = true
	}
	vf.Reach("done")
}

// VerifC17Handlers: the HTTP handlers in front of the log, from a log holding
// one completed and/or one pending entry: which method and "return" value leads
// to which log operation, and what the log holds afterwards.
func VerifC17Handlers() {
	var ids []string
	var done []bool
	if vf.Choice("completed-entry", 2) == 1 {
		ids, done = append(ids, "a"), append(done, true)
	}
	if vf.Choice("pending-entry", 2) == 1 {
		ids, done = append(ids, "b"), append(done, false)
	}
	l, model := buildState(ids, done)
	method := []string{"GET", "POST", "DELETE", "PUT"}[vf.Choice("method", 4)]
	reset := vf.Choice("reset-handler", 2) == 1
	rets := []string{"", "return=true", "return=1", "return=false", "return=bogus"}
	ret := vf.Choice("return-param", len(rets))
	w := &hrw{h: http.Header{}, status: 200}
	req := &http.Request{Method: method, URL: &url.URL{Path: "/logs", RawQuery: rets[ret]}, Header: http.Header{}}
	if reset {
		NewResetHandler(l).ServeHTTP(w, req)
	} else {
		NewExportHandler(l).ServeHTTP(w, req)
	}
	var completed, pending []mEntry
	for _, m := range model {
		if m.done {
			completed = append(completed, m)
		} else {
			pending = append(pending, m)
		}
	}
	listed := func(want []mEntry) {
		// the document is JSON with one "startedDateTime" per entry (decoding it back is C16's subject)
		b := w.body.Bytes()
		vf.Assert(bytes.HasPrefix(b, []byte(`{"log":{`)), "handler-writes-a-har-document")
		vf.Assert(bytes.Count(b, []byte(`"startedDateTime"`)) == len(want), "handler-lists-the-entries-of-the-operation")
	}
	switch {
	case !reset && method == "GET":
		listed(model)
		checkState(l, model, "export-handler")
	case !reset:
		vf.Assert(w.status == 405, "other-methods-not-allowed")
		checkState(l, model, "export-handler-405")
	case method != "POST" && method != "DELETE":
		vf.Assert(w.status == 405, "other-methods-not-allowed")
		checkState(l, model, "reset-handler-405")
	case ret == 4:
		vf.Assert(w.status == 400, "invalid-return-value-rejected")
		checkState(l, model, "reset-handler-400")
	case ret == 1 || ret == 2:
		// export-and-reset: returns exactly the completed entries and keeps the pending ones
		listed(completed)
		checkState(l, pending, "reset-handler-return")
		vf.Reach("export-and-reset")
	default:
		vf.Assert(w.status == 204, "reset-answers-204")
		checkState(l, nil, "reset-handler")
	}
	vf.Reach("done")
}

type hrw struct {
	h      http.Header
	status int
	body   bytes.Buffer
}

func (w *hrw) Header() http.Header         { return w.h }
func (w *hrw) Write(b []byte) (int, error) { return w.body.Write(b) }
func (w *hrw) WriteHeader(s int)           { w.status = s }
