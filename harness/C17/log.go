//go:build verif

package har

import (
	"bytes"
	"net/http"
	"net/url"
	"strconv"
	"sync"

	"github.com/google/martian/v3/zzverif/vf"
)

// Engine-side summaries of NewRequest/NewResponse (they are C16's subject): method and URL of the
// request and the status of the response are kept, which is what identifies an exchange below.
func verifNewRequest(req *http.Request, withBody bool) (*Request, error) {
	return &Request{Method: req.Method, URL: req.URL.String()}, nil
}

func verifNewResponse(res *http.Response, withBody bool) (*Response, error) {
	return &Response{Status: res.StatusCode}, nil
}

// Every recorded request carries its own URL (the tag), every response its own status: entries
// are compared by what they contain, never by pointer or by the log's internal representation,
// so the harness goes through the exported API only.
var zztagSeq int

func zzmkReqTag() (*http.Request, string) {
	zztagSeq++
	p := "/t" + strconv.Itoa(zztagSeq)
	return &http.Request{Method: "GET", URL: &url.URL{Scheme: "http", Host: "h", Path: p}, Header: http.Header{}, Proto: "HTTP/1.1", ProtoMajor: 1, ProtoMinor: 1}, "http://h" + p
}

func zzmkReq() *http.Request { r, _ := zzmkReqTag(); return r }

func zzmkRes(status int) *http.Response {
	return &http.Response{StatusCode: status, Header: http.Header{}, Proto: "HTTP/1.1", ProtoMajor: 1, ProtoMinor: 1, Body: http.NoBody, Request: zzmkReq()}
}

type zzmEntry struct {
	id     string
	tag    string // URL of the request recorded under this id
	done   bool
	status int // status of the response attached to it
}

// buildState brings a fresh logger, through the exported operations only, into a state holding
// the given entries in arrival order with the given ids and completion bits. With drained=true
// the log has a history first: an earlier completed entry that was exported and reset away and
// an earlier pending one that stays (ids "z0"/"z1", distinct from the symbolic ones).
func zzbuildState(ids []string, done []bool, drained bool) (*Logger, []zzmEntry) {
	l := NewLogger()
	var model []zzmEntry
	if drained {
		r0, _ := zzmkReqTag()
		r1, t1 := zzmkReqTag()
		l.RecordRequest("z0", r0)
		l.RecordRequest("z1", r1)
		l.RecordResponse("z0", zzmkRes(250))
		l.ExportAndReset()
		model = append(model, zzmEntry{id: "z1", tag: t1})
	}
	for i, id := range ids {
		r, t := zzmkReqTag()
		vf.Assert(l.RecordRequest(id, r) == nil, "build:request-recorded")
		m := zzmEntry{id: id, tag: t}
		if done[i] {
			l.RecordResponse(id, zzmkRes(200+i))
			m.done, m.status = true, 200+i
		}
		model = append(model, m)
	}
	return l, model
}

func zzsameEntry(e *Entry, m zzmEntry, tag string) {
	vf.Assert(e != nil && e.ID == m.id, tag+":entry-id")
	if e == nil {
		return
	}
	vf.Assert(e.Request != nil && e.Request.URL == m.tag, tag+":entry-is-the-recorded-request")
	vf.Assert((e.Response != nil) == m.done, tag+":entry-completion")
	if e.Response != nil && m.done {
		vf.Assert(e.Response.Status == m.status, tag+":response-attached-to-its-own-request")
	}
}

// checkState: an export lists exactly the model's entries, in arrival order.
func zzcheckState(l *Logger, model []zzmEntry, tag string) {
	zzsameEntries(l.Export().Log.Entries, model, tag)
}

func zzsameEntries(got []*Entry, want []zzmEntry, tag string) {
	vf.Assert(len(got) == len(want), tag+":export-length")
	if len(got) != len(want) {
		return
	}
	for i := range got {
		zzsameEntry(got[i], want[i], tag+":export-order")
	}
}

func zzsymIDs(n int) []string {
	ids := make([]string, n)
	for i := range ids {
		ids[i] = vf.String("id", 2)
		vf.Assume(ids[i] != "z0" && ids[i] != "z1" && ids[i] != "zz")
		for j := 0; j < i; j++ {
			vf.Assume(ids[i] != ids[j])
		}
	}
	return ids
}

// VerifC17Step: one operation with symbolic arguments from a state of up to N
// retained entries (symbolic ids, symbolic completion bits), reached through the
// exported operations with or without an earlier export-and-reset.
func VerifC17Step() {
	n := vf.Choice("n", vf.Param("entries")+1)
	ids := zzsymIDs(n)
	done := make([]bool, n)
	for i := range done {
		done[i] = vf.Bool("done")
	}
	l, model := zzbuildState(ids, done, vf.Choice("earlier-export-and-reset", 2) == 1)
	zzcheckState(l, model, "pre")

	op := vf.Choice("op", 5)
	vf.WatchOn()
	switch op {
	case 0: // RecordRequest with an arbitrary id (new or duplicate)
		id := vf.String("arg", 2)
		r, t := zzmkReqTag()
		err := l.RecordRequest(id, r)
		vf.WatchOff()
		dup := false
		for _, m := range model {
			if m.id == id {
				dup = true
			}
		}
		if dup {
			vf.Assert(err != nil, "record-request:duplicate-rejected")
			zzcheckState(l, model, "record-request-dup")
			vf.Reach("dup")
		} else {
			vf.Assert(err == nil, "record-request:accepted")
			zzcheckState(l, append(model, zzmEntry{id: id, tag: t}), "record-request-new")
			vf.Reach("new")
		}
	case 1: // RecordResponse with an arbitrary id (known or unknown)
		id := vf.String("arg", 2)
		err := l.RecordResponse(id, zzmkRes(299))
		vf.WatchOff()
		vf.Assert(err == nil, "record-response:no-error")
		hit := false
		for i := range model {
			if model[i].id == id {
				model[i].done, model[i].status = true, 299
				hit = true
			}
		}
		if hit {
			vf.Reach("known-id")
		} else {
			vf.Reach("unknown-id")
		}
		zzcheckState(l, model, "record-response")
	case 2:
		h := l.Export()
		vf.WatchOff()
		zzsameEntries(h.Log.Entries, model, "export")
		zzcheckState(l, model, "export")
		vf.Reach("export")
	case 3:
		h := l.ExportAndReset()
		vf.WatchOff()
		var completed, pending []zzmEntry
		for _, m := range model {
			if m.done {
				completed = append(completed, m)
			} else {
				pending = append(pending, m)
			}
		}
		zzsameEntries(h.Log.Entries, completed, "export-and-reset")
		zzcheckState(l, pending, "export-and-reset")
		// what was kept is still a working log: a later request is appended after the kept ones
		r, t := zzmkReqTag()
		vf.Assert(l.RecordRequest("zz", r) == nil, "export-and-reset:log-usable-afterwards")
		zzcheckState(l, append(pending, zzmEntry{id: "zz", tag: t}), "after-export-and-reset")
		vf.Reach("export-and-reset")
	case 4:
		l.Reset()
		vf.WatchOff()
		zzcheckState(l, nil, "reset")
		vf.Reach("reset")
	}
	vf.Reach("done")
}

// VerifC17Sequence: operation sequences from NewLogger over a small id
// alphabet, checked end to end against the slice model (also "each entry
// exactly once over the life of the log").
func VerifC17Sequence() {
	l := NewLogger()
	var model []zzmEntry
	exported := map[string]int{}
	steps := vf.Param("steps")
	alphabet := []string{"a", "b", "c"}
	for s := 0; s < steps; s++ {
		switch vf.Choice("op", 5) {
		case 0:
			id := alphabet[vf.Choice("id", len(alphabet))]
			r, t := zzmkReqTag()
			err := l.RecordRequest(id, r)
			dup := false
			for _, m := range model {
				if m.id == id {
					dup = true
				}
			}
			vf.Assert((err != nil) == dup, "seq:duplicate-iff-present")
			if !dup {
				model = append(model, zzmEntry{id: id, tag: t})
			}
		case 1:
			id := alphabet[vf.Choice("id", len(alphabet))]
			l.RecordResponse(id, zzmkRes(300+s))
			for i := range model {
				if model[i].id == id {
					model[i].done, model[i].status = true, 300+s
				}
			}
		case 2:
			h := l.Export()
			zzsameEntries(h.Log.Entries, model, "seq-export")
		case 3:
			h := l.ExportAndReset()
			var completed, pending []zzmEntry
			for _, m := range model {
				if m.done {
					completed = append(completed, m)
				} else {
					pending = append(pending, m)
				}
			}
			zzsameEntries(h.Log.Entries, completed, "seq-export-and-reset")
			for _, e := range h.Log.Entries {
				if e != nil && e.Request != nil {
					exported[e.Request.URL]++
					vf.Assert(exported[e.Request.URL] == 1, "seq:exported-exactly-once")
				}
			}
			model = pending
		case 4:
			l.Reset()
			model = nil
		}
		zzcheckState(l, model, "seq")
	}
	vf.Reach("done")
}

// VerifC17Drain: what an ExportAndReset keeps stays fully usable. From a state of up to N
// entries with any completion bits (optionally after an earlier drain), ExportAndReset returns
// the completed ones; every kept entry is then still addressed by its id - a second request
// under that id is a duplicate, its response attaches to it - and a second ExportAndReset
// returns them all and leaves the log empty.
func VerifC17Drain() {
	n := 1 + vf.Choice("entries", vf.Param("entries"))
	ids := []string{"a", "b", "c", "d", "e"}[:n]
	done := make([]bool, n)
	for i := range done {
		done[i] = vf.Choice("completed", 2) == 1
	}
	l, model := zzbuildState(ids, done, vf.Choice("drained-before", 2) == 1)
	h := l.ExportAndReset()
	var completed, pending []zzmEntry
	for _, m := range model {
		if m.done {
			completed = append(completed, m)
		} else {
			pending = append(pending, m)
		}
	}
	zzsameEntries(h.Log.Entries, completed, "drain-export")
	model = pending
	zzcheckState(l, model, "drain-kept")
	backwards := vf.Choice("complete-newest-first", 2) == 1
	for k := range model {
		i := k
		if backwards {
			i = len(model) - 1 - k
		}
		if vf.Choice("probe-duplicate", 2) == 1 {
			vf.Assert(l.RecordRequest(model[i].id, zzmkReq()) != nil, "drain:kept-id-still-taken")
		}
		l.RecordResponse(model[i].id, zzmkRes(400+i))
		model[i].done, model[i].status = true, 400+i
		zzcheckState(l, model, "drain-kept-entry-completes")
	}
	h = l.ExportAndReset()
	zzsameEntries(h.Log.Entries, model, "drain-second-export")
	zzcheckState(l, nil, "drain-empty")
	vf.Reach("done")
}

// ---- concurrent executions against the sequential model ----

type zzcop struct {
	kind int // 0 RecordRequest, 1 RecordResponse, 2 Export, 3 ExportAndReset
	id   string
}

type zzcent struct {
	id   string
	done bool
}

func zzrender(es []zzcent) string {
	s := "["
	for _, e := range es {
		s += e.id
		if e.done {
			s += "+"
		}
		s += " "
	}
	return s + "]"
}

// capply is the sequential specification of one operation.
func zzcapply(st []zzcent, o zzcop) ([]zzcent, string) {
	switch o.kind {
	case 0:
		for _, e := range st {
			if e.id == o.id {
				return st, "duplicate"
			}
		}
		return append(append([]zzcent(nil), st...), zzcent{id: o.id}), "ok"
	case 1:
		out := append([]zzcent(nil), st...)
		for i := range out {
			if out[i].id == o.id {
				out[i].done = true
			}
		}
		return out, ""
	case 2:
		return st, zzrender(st)
	default:
		var completed, pending []zzcent
		for _, e := range st {
			if e.done {
				completed = append(completed, e)
			} else {
				pending = append(pending, e)
			}
		}
		return pending, zzrender(completed)
	}
}

func zzentriesOf(es []*Entry) []zzcent {
	var out []zzcent
	for _, e := range es {
		out = append(out, zzcent{id: e.ID, done: e.Response != nil})
	}
	return out
}

func zzrunReal(l *Logger, o zzcop) string {
	switch o.kind {
	case 0:
		if l.RecordRequest(o.id, zzmkReq()) != nil {
			return "duplicate"
		}
		return "ok"
	case 1:
		l.RecordResponse(o.id, zzmkRes(200))
		return ""
	case 2:
		return zzrender(zzentriesOf(l.Export().Log.Entries))
	default:
		return zzrender(zzentriesOf(l.ExportAndReset().Log.Entries))
	}
}

// VerifC17Concurrent: two goroutines perform one operation each on a shared
// log (optionally holding one pending entry), under every schedule within the
// preemption bound. The two results and the final contents must be those of
// one of the two sequential orders of the same operations.
func VerifC17Concurrent() {
	ids := []string{"a", "b"}
	l := NewLogger()
	var st []zzcent
	if vf.Choice("one-pending-entry-before", 2) == 1 {
		l.RecordRequest("a", zzmkReq())
		st = []zzcent{{id: "a"}}
	}
	ops := [2]zzcop{}
	ops[0] = zzcop{kind: vf.Choice("first-goroutine-op", 2), id: ids[vf.Choice("id", 2)]}
	ops[1] = zzcop{kind: vf.Choice("second-goroutine-op", 4), id: ids[vf.Choice("id", 2)]}
	var got [2]string
	var wg sync.WaitGroup
	for k := 0; k < 2; k++ {
		k := k
		wg.Add(1)
		go func() {
			defer wg.Done()
			got[k] = zzrunReal(l, ops[k])
		}()
	}
	wg.Wait()
	final := zzrender(zzentriesOf(l.Export().Log.Entries))

	matches := false
	for _, order := range [][2]int{{0, 1}, {1, 0}} {
		var want [2]string
		s := st
		for _, k := range order {
			s, want[k] = zzcapply(s, ops[k])
		}
		if want == got && zzrender(s) == final {
			matches = true
		}
	}
	vf.Assert(matches, "concurrent-outcome-equals-a-sequential-order")
	// whatever the order, an id is listed at most once
	seen := map[string]bool{}
	for _, e := range l.Export().Log.Entries {
		vf.Assert(!seen[e.ID], "an-id-is-listed-at-most-once")
		seen[e.ID] = true
	}
	vf.Reach("done")
}

// VerifC17Handlers: the HTTP handlers in front of the log, from a log holding
// one completed and/or one pending entry: which method and "return" value leads
// to which log operation, and what the log holds afterwards.
func VerifC17Handlers() {
	var ids []string
	var done []bool
	if vf.Choice("completed-entry", 2) == 1 {
		ids, done = append(ids, "a"), append(done, true)
	}
	if vf.Choice("pending-entry", 2) == 1 {
		ids, done = append(ids, "b"), append(done, false)
	}
	l, model := zzbuildState(ids, done, false)
	method := []string{"GET", "POST", "DELETE", "PUT"}[vf.Choice("method", 4)]
	reset := vf.Choice("reset-handler", 2) == 1
	rets := []string{"", "return=true", "return=1", "return=false", "return=bogus"}
	ret := vf.Choice("return-param", len(rets))
	w := &zzhrw{h: http.Header{}, status: 200}
	req := &http.Request{Method: method, URL: &url.URL{Path: "/logs", RawQuery: rets[ret]}, Header: http.Header{}}
	if reset {
		NewResetHandler(l).ServeHTTP(w, req)
	} else {
		NewExportHandler(l).ServeHTTP(w, req)
	}
	var completed, pending []zzmEntry
	for _, m := range model {
		if m.done {
			completed = append(completed, m)
		} else {
			pending = append(pending, m)
		}
	}
	listed := func(want []zzmEntry) {
		// the document is JSON with one "startedDateTime" per entry (decoding it back is C16's subject)
		b := w.body.Bytes()
		vf.Assert(bytes.HasPrefix(b, []byte(`{"log":{`)), "handler-writes-a-har-document")
		vf.Assert(bytes.Count(b, []byte(`"startedDateTime"`)) == len(want), "handler-lists-the-entries-of-the-operation")
	}
	switch {
	case !reset && method == "GET":
		listed(model)
		zzcheckState(l, model, "export-handler")
	case !reset:
		vf.Assert(w.status == 405, "other-methods-not-allowed")
		zzcheckState(l, model, "export-handler-405")
	case method != "POST" && method != "DELETE":
		vf.Assert(w.status == 405, "other-methods-not-allowed")
		zzcheckState(l, model, "reset-handler-405")
	case ret == 4:
		vf.Assert(w.status == 400, "invalid-return-value-rejected")
		zzcheckState(l, model, "reset-handler-400")
	case ret == 1 || ret == 2:
		// export-and-reset: returns exactly the completed entries and keeps the pending ones
		listed(completed)
		zzcheckState(l, pending, "reset-handler-return")
		vf.Reach("export-and-reset")
	default:
		vf.Assert(w.status == 204, "reset-answers-204")
		zzcheckState(l, nil, "reset-handler")
	}
	vf.Reach("done")
}

type zzhrw struct {
	h      http.Header
	status int
	body   bytes.Buffer
}

func (w *zzhrw) Header() http.Header         { return w.h }
func (w *zzhrw) Write(b []byte) (int, error) { return w.body.Write(b) }
func (w *zzhrw) WriteHeader(s int)           { w.status = s }
