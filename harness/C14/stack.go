//go:build verif

package httpspec

import (
	"net/http"
	"net/url"
	"strings"

	"github.com/google/martian/v3"
	"github.com/google/martian/v3/proxyutil"
	"github.com/google/martian/v3/zzverif/vf"
)

func zzisTchar(c byte) bool {
	switch {
	case c >= 'a' && c <= 'z', c >= 'A' && c <= 'Z', c >= '0' && c <= '9':
		return true
	}
	return strings.IndexByte("!#$%&'*+-.^_`|~", c) >= 0
}

func zzlower(c byte) byte {
	if c >= 'A' && c <= 'Z' {
		return c + 32
	}
	return c
}

// names reports whether Connection-list element tok names header h
// (case-insensitive, optional whitespace trimmed; only valid tokens name headers).
func zznames(tok, h string) bool {
	for len(tok) > 0 && (tok[0] == ' ' || tok[0] == '\t') {
		tok = tok[1:]
	}
	for len(tok) > 0 && (tok[len(tok)-1] == ' ' || tok[len(tok)-1] == '\t') {
		tok = tok[:len(tok)-1]
	}
	if len(tok) != len(h) || len(tok) == 0 {
		return false
	}
	for i := 0; i < len(tok); i++ {
		if !zzisTchar(tok[i]) || zzlower(tok[i]) != zzlower(h[i]) {
			return false
		}
	}
	return true
}

var zzfixedHopByHop = []string{"Connection", "Keep-Alive", "Proxy-Authenticate", "Proxy-Authorization", "Proxy-Connection", "Te", "Trailer", "Transfer-Encoding", "Upgrade"}

func zzprintable(s string) {
	for i := 0; i < len(s); i++ {
		vf.Assume(s[i] < 0x7f && (s[i] >= 0x20 || s[i] == '\t') && s[i] != ',')
	}
}

func zznewReq() (*http.Request, func()) {
	req := &http.Request{Method: "GET", URL: &url.URL{Scheme: "http", Host: "example.com", Path: "/p"}, Host: "example.com",
		Header: http.Header{}, Proto: "HTTP/1.1", ProtoMajor: 1, ProtoMinor: 1, RemoteAddr: "10.0.0.1:5000"}
	_, remove, err := martian.TestContext(req, nil, nil)
	vf.Assert(err == nil, "test-context")
	return req, remove
}

// connectionLists builds 1..2 Connection header lines of 1..2 list elements
// each; every element is a symbolic string of 2..4 bytes (so surrounding
// whitespace, letter case and invalid token characters are all covered).
func zzconnectionLists() ([]string, []string) {
	var lines, toks []string
	// Layouts of list elements over header lines. "s" is a fully symbolic
	// element, "c" a concrete one (" x-y" with leading whitespace, lower case).
	layouts := []string{"s", "s,c", "c|s", "s|c", "c,s", "s,s", "s|s"}
	layout := layouts[vf.Choice("connection-layout", vf.Param("layouts"))]
	line := ""
	first := true
	flush := func() {
		lines = append(lines, line)
		line = ""
		first = true
	}
	for i := 0; i < len(layout); i++ {
		switch layout[i] {
		case '|':
			flush()
		case ',':
		default:
			var t string
			if layout[i] == 's' {
				t = vf.String("tok", 2+vf.Choice("toklen", vf.Param("toklens")))
				zzprintable(t)
			} else {
				t = " x-y"
			}
			toks = append(toks, t)
			if !first {
				line += ","
			}
			first = false
			line += t
		}
	}
	flush()
	return lines, toks
}

// candidate end-to-end / hop-by-hop headers present on the message
var zzcandidates = []string{"Ab", "X-Y", "Keep-Alive", "Te", "Accept"}

func zzexpectGone(h string, toks []string) bool {
	for _, f := range zzfixedHopByHop {
		if f == h {
			return true
		}
	}
	for _, t := range toks {
		if zznames(t, h) {
			return true
		}
	}
	return false
}

func zzcheckSurvivors(got http.Header, toks []string, before map[string][]string, tag string) {
	for _, h := range zzcandidates {
		vals, present := got[h]
		if zzexpectGone(h, toks) {
			vf.Assert(!present, tag+":hop-by-hop-header-removed")
		} else {
			vf.Assert(present, tag+":end-to-end-header-kept")
			if present {
				vf.Assert(len(vals) == len(before[h]), tag+":end-to-end-header-values-kept")
				if len(vals) == len(before[h]) {
					for i := range vals {
						vf.Assert(vals[i] == before[h][i], tag+":end-to-end-header-value-untouched")
					}
				}
			}
		}
	}
	_, present := got["Connection"]
	vf.Assert(!present, tag+":connection-header-removed")
}

// VerifC14HopByHop: request and response through the standard stack.
func VerifC14HopByHop() {
	outer, _ := NewStack("martian")
	lines, toks := zzconnectionLists()
	before := map[string][]string{}
	for _, h := range zzcandidates {
		before[h] = []string{"v-" + h, "w"}
	}
	isReq := vf.Choice("message", 2) == 0
	req, remove := zznewReq()
	defer remove()
	if isReq {
		req.Header["Connection"] = lines
		for h, v := range before {
			req.Header[h] = append([]string(nil), v...)
		}
		err := outer.ModifyRequest(req)
		vf.Assert(err == nil, "request:stack-no-error")
		zzcheckSurvivors(req.Header, toks, before, "request")
		vf.Reach("request")
	} else {
		vf.Assert(outer.ModifyRequest(req) == nil, "response:request-phase")
		res := proxyutil.NewResponse(200, nil, req)
		res.Header["Connection"] = lines
		for h, v := range before {
			res.Header[h] = append([]string(nil), v...)
		}
		err := outer.ModifyResponse(res)
		vf.Assert(err == nil, "response:stack-no-error")
		zzcheckSurvivors(res.Header, toks, before, "response")
		vf.Reach("response")
	}
	vf.Reach("done")
}

func zzsplitList(lines []string) []string {
	var out []string
	for _, l := range lines {
		for _, e := range strings.Split(l, ",") {
			e = strings.TrimSpace(e)
			if e != "" {
				out = append(out, e)
			}
		}
	}
	return out
}

// VerifC14Via: pre-existing Via chains (1..2 header lines of 1..2 entries),
// any entry of which may name this proxy instance.
func VerifC14Via() {
	outer, _ := NewStack("martian")
	// learn this instance's Via entry from a first request
	r0, rm0 := zznewReq()
	vf.Assert(outer.ModifyRequest(r0) == nil, "via:first-request")
	rm0()
	self := r0.Header.Get("Via")
	vf.Assert(strings.HasPrefix(self, "1.1 martian-"), "via:entry-shape")

	nl := vf.Choice("via-lines", 3)
	var lines []string
	loop := false
	for i := 0; i < nl; i++ {
		ne := 1 + vf.Choice("entries", 2)
		var es []string
		for j := 0; j < ne; j++ {
			switch vf.Choice("entry", 3) {
			case 0:
				es = append(es, "1.1 other-proxy")
			case 1:
				es = append(es, "1.0 fred (comment)")
			case 2:
				// this instance's own entry, as emitted or respelled by an intermediary: any run of
				// spaces and tabs may separate protocol and pseudonym, and a comment may follow
				e := self
				if k := vf.Choice("self-spelling", 3); k > 0 {
					ws := vf.String("via-whitespace", k)
					for x := 0; x < len(ws); x++ {
						vf.Assume(ws[x] == ' ' || ws[x] == '\t')
					}
					e = "1.1" + ws + strings.TrimPrefix(self, "1.1 ")
					if k == 2 {
						e += " (respelled)"
					}
				}
				es = append(es, e)
				loop = true
			}
		}
		lines = append(lines, strings.Join(es, ", "))
	}
	req, remove := zznewReq()
	defer remove()
	if nl > 0 {
		req.Header["Via"] = lines
	}
	err := outer.ModifyRequest(req)
	ctx := martian.NewContext(req)
	res := proxyutil.NewResponse(200, nil, req)
	rerr := outer.ModifyResponse(res)
	if loop {
		vf.Assert(err != nil, "via:loop-flagged")
		vf.Assert(ctx.SkippingRoundTrip(), "via:loop-never-sent-upstream")
		vf.Assert(res.StatusCode == 400, "via:loop-answered-400")
		_ = rerr
		vf.Reach("loop")
	} else {
		vf.Assert(err == nil, "via:no-loop-no-error")
		vf.Assert(!ctx.SkippingRoundTrip(), "via:no-loop-forwarded")
		got := zzsplitList(req.Header["Via"])
		want := append(zzsplitList(lines), self)
		vf.Assert(len(got) == len(want), "via:exactly-one-entry-appended")
		if len(got) == len(want) {
			for i := range got {
				vf.Assert(got[i] == want[i], "via:existing-entries-kept-in-order")
			}
		}
		vf.Assert(res.StatusCode == 200, "via:no-loop-status-untouched")
		vf.Reach("no-loop")
	}
	vf.Reach("done")
}

// VerifC14Forwarded: X-Forwarded-* with 0..2 pre-existing lines.
func VerifC14Forwarded() {
	outer, _ := NewStack("martian")
	req, remove := zznewReq()
	defer remove()
	addrs := []string{"10.0.0.1:5000", "10.0.0.1", "[::1]:80"}
	hosts := []string{"10.0.0.1", "10.0.0.1", "::1"}
	k := vf.Choice("remote-addr", len(addrs))
	req.RemoteAddr = addrs[k]
	nf := vf.Choice("xff-lines", 3)
	var xff []string
	for i := 0; i < nf; i++ {
		xff = append(xff, []string{"1.1.1.1", "2.2.2.2, 3.3.3.3"}[vf.Choice("xff", 2)])
	}
	if nf > 0 {
		req.Header["X-Forwarded-For"] = xff
	}
	pre := map[string]string{}
	for _, h := range []string{"X-Forwarded-Proto", "X-Forwarded-Host", "X-Forwarded-Url"} {
		if vf.Choice("preexisting", 2) == 1 {
			pre[h] = "orig-" + h
			req.Header[h] = []string{pre[h]}
		}
	}
	// the client may name one of these headers in Connection: what it sent under that name is
	// then hop-by-hop and goes, and the proxy's own value is still added afterwards
	named := map[string]bool{}
	switch vf.Choice("connection-names-forwarded", 3) {
	case 1:
		req.Header["Connection"] = []string{"close, x-forwarded-for"}
		named["X-Forwarded-For"] = true
	case 2:
		req.Header["Connection"] = []string{"X-Forwarded-Url", "x-forwarded-proto"}
		named["X-Forwarded-Url"], named["X-Forwarded-Proto"] = true, true
	}
	if named["X-Forwarded-For"] {
		xff = nil
	}
	for h := range named {
		delete(pre, h)
	}
	vf.Assert(outer.ModifyRequest(req) == nil, "forwarded:no-error")
	got := zzsplitList(req.Header["X-Forwarded-For"])
	want := append(zzsplitList(xff), hosts[k])
	vf.Assert(len(got) == len(want), "forwarded:for-appended-once")
	if len(got) == len(want) {
		for i := range got {
			vf.Assert(got[i] == want[i], "forwarded:for-existing-values-kept")
		}
	}
	exp := map[string]string{"X-Forwarded-Proto": "http", "X-Forwarded-Host": "example.com", "X-Forwarded-Url": "http://example.com/p"}
	for h, v := range exp {
		if p, ok := pre[h]; ok {
			v = p
		}
		vf.Assert(len(req.Header[h]) == 1 && req.Header[h][0] == v, "forwarded:"+h)
	}
	vf.Reach("done")
}

// VerifC14Framing: Content-Length lines with symbolic digits and
// Transfer-Encoding lists, through the whole stack.
func VerifC14Framing() {
	outer, _ := NewStack("martian")
	req, remove := zznewReq()
	defer remove()
	ncl := vf.Choice("content-length-lines", 3)
	var cls []string
	var lines []string
	for i := 0; i < ncl; i++ {
		// a header line carries one value or a comma-separated list of values
		var elems []string
		for e, ne := 0, 1+vf.Choice("cl-elements", 2); e < ne; e++ {
			d := vf.String("cl", 1+vf.Choice("cl-digits", 2))
			for j := 0; j < len(d); j++ {
				vf.Assume(d[j] >= '0' && d[j] <= '9')
			}
			elems = append(elems, d)
			cls = append(cls, d)
		}
		lines = append(lines, strings.Join(elems, ", "))
	}
	if ncl > 0 {
		req.Header["Content-Length"] = lines
	}
	teChoice := vf.Choice("transfer-encoding", 7)
	tes := [][]string{nil, {"chunked"}, {"gzip, chunked"}, {"chunked", "gzip"}, {"gzip", "chunked"}, {"gzip, chunked", "identity"}, {"gzip , chunked "}}[teChoice]
	if tes != nil {
		req.Header["Transfer-Encoding"] = tes
	}
	err := outer.ModifyRequest(req)
	conflict := false
	for i := 1; i < len(cls); i++ {
		if cls[i] != cls[0] {
			conflict = true
		}
	}
	badTE := teChoice == 3 || teChoice == 5
	vf.Assert((err != nil) == (conflict || badTE), "framing:error-iff-conflicting-length-or-te-not-ending-in-chunked")
	if err == nil && ncl > 0 && tes == nil {
		vf.Assert(len(req.Header["Content-Length"]) == 1 && req.Header["Content-Length"][0] == cls[0], "framing:single-content-length-kept")
	}
	vf.Reach("done")
}
