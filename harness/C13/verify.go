//go:build verif

package martianhttp

import (
	"bytes"
	"io/ioutil"
	"net/http"
	"net/url"

	"encoding/json"
	"github.com/google/martian/v3"

	_ "github.com/google/martian/v3/fifo"
	_ "github.com/google/martian/v3/header"
	_ "github.com/google/martian/v3/martianurl"
	_ "github.com/google/martian/v3/method"
	_ "github.com/google/martian/v3/pingback"
	_ "github.com/google/martian/v3/querystring"
	_ "github.com/google/martian/v3/status"
	"github.com/google/martian/v3/verify"
	"github.com/google/martian/v3/zzverif/vf"
)

const zzhv = `{"header.Verifier": {"name": "X-Exp", "value": "1"}}`
const zzhv2 = `{"header.Verifier": {"name": "X-Exp2", "value": "1"}}`
const zzsv = `{"status.Verifier": {"statusCode": 200}}`
const zzpb = `{"pingback.Verifier": {"scheme": "http", "host": "h", "path": "/ping"}}`
const zzqv = `{"querystring.Verifier": {"name": "k", "value": "1"}}`
const zzqp = `{"querystring.Verifier": {"name": "k"}}`
const zzmv = `{"method.Verifier": {"method": "POST"}}`
const zztr = `{"header.Append": {"name": "X-Trace", "value": "t"}}`

// vmodel describes one verifier of a configuration: when it is evaluated.
type zzvmodel struct {
	status   bool // status verifier (responses only) instead of header verifier
	second   bool // checks X-Exp2 instead of X-Exp
	onTrue   bool // evaluated only when the filter condition holds
	onFalse  bool // evaluated only when it does not
	qsValue  bool // query string verifier expecting k=1
	qsKey    bool // query string verifier expecting the key k to be present
	method   bool // method verifier expecting POST
	pingback bool // pingback verifier: unmet until a matching request has been seen since the last reset
	seen     bool
	reqFail  int
	resFail  int
}

var zzshapes = []struct {
	cfg string
	vs  []zzvmodel
}{
	{`{"fifo.Group": {"modifiers": [` + zzhv + `]}}`, []zzvmodel{{}}},
	{`{"header.Filter": {"name": "X-Cond", "value": "1", "modifier": ` + zzhv + `}}`, []zzvmodel{{onTrue: true}}},
	{`{"header.Filter": {"name": "X-Cond", "value": "1", "modifier": ` + zztr + `, "else": ` + zzhv + `}}`, []zzvmodel{{onFalse: true}}},
	{`{"fifo.Group": {"modifiers": [{"fifo.Group": {"modifiers": [` + zzhv + `]}}, ` + zzsv + `]}}`, []zzvmodel{{}, {status: true}}},
	{`{"header.Filter": {"name": "X-Cond", "value": "1", "modifier": ` + zzhv + `, "else": ` + zzhv2 + `}}`, []zzvmodel{{onTrue: true}, {onFalse: true, second: true}}},
	{`{"fifo.Group": {"modifiers": [{"header.Filter": {"name": "X-Cond", "value": "1", "modifier": ` + zzsv + `, "else": ` + zzhv + `}}]}}`, []zzvmodel{{status: true, onTrue: true}, {onFalse: true}}},
	{`{"fifo.Group": {"modifiers": [{"fifo.Group": {"modifiers": [` + zzpb + `]}}, ` + zzhv + `]}}`, []zzvmodel{{pingback: true}, {}}},
	{`{"fifo.Group": {"modifiers": [` + zzqv + `, {"fifo.Group": {"modifiers": [` + zzqp + `, ` + zzmv + `]}}]}}`, []zzvmodel{{qsValue: true}, {qsKey: true}, {method: true}}},
}

func zzflatCount(err error, tag string) int {
	if err == nil {
		return 0
	}
	me, ok := err.(*martian.MultiError)
	vf.Assert(ok, tag+":verification-error-is-a-multi-error")
	if !ok {
		return 1
	}
	for _, e := range me.Errors() {
		_, nested := e.(*martian.MultiError)
		vf.Assert(!nested, tag+":nested-errors-flattened")
	}
	return len(me.Errors())
}

// VerifC13History: traffic, queries and resets in any order against a
// counter model of the unmet expectations.
func VerifC13History() {
	sh := zzshapes[vf.Choice("shape", len(zzshapes))]
	vs := append([]zzvmodel(nil), sh.vs...)
	hasPingback, hasQuery := false, false
	for _, v := range vs {
		hasPingback = hasPingback || v.pingback
		hasQuery = hasQuery || v.qsValue || v.qsKey || v.method
	}
	m := NewModifier()
	vf.Assert(zzpost(m, sh.cfg) == 200, "configuration-accepted")
	ops := vf.Param("ops")
	for i := 0; i < ops; i++ {
		vf.WatchOn()
		switch vf.Choice("op", 5) {
		case 0: // one exchange
			exp, exp2, cond := vf.String("x-exp", 1), vf.String("x-exp2", 1), vf.String("x-cond", 1)
			rexp, rexp2 := vf.String("res-x-exp", 1), vf.String("res-x-exp2", 1)
			ok200 := vf.Bool("status-200")
			api := vf.Bool("api-request")
			path := "/"
			if hasPingback && vf.Bool("request-is-the-pingback") {
				path = "/ping"
			}
			rawQuery, meth := "", "GET"
			keyPresent, valueMatches := false, false
			if hasQuery {
				queries := []struct {
					raw            string
					present, match bool
				}{{"j=1", false, false}, {"k=", true, false}, {"k=1", true, true}, {"k=&k=1", true, true}}
				q := queries[vf.Choice("query", len(queries))]
				rawQuery, keyPresent, valueMatches = q.raw, q.present, q.match
				if vf.Bool("method-post") {
					meth = "POST"
				}
			}
			req := &http.Request{Method: meth, URL: &url.URL{Scheme: "http", Host: "h", Path: path, RawQuery: rawQuery}, Host: "h", Proto: "HTTP/1.1", ProtoMajor: 1, ProtoMinor: 1,
				Header: http.Header{"X-Exp": {exp}, "X-Exp2": {exp2}, "X-Cond": {cond}}, Body: ioutil.NopCloser(bytes.NewReader(nil))}
			ctx, remove, err := martian.TestContext(req, nil, nil)
			vf.Assert(err == nil, "test-context")
			if api {
				ctx.APIRequest()
			}
			status := 500
			if ok200 {
				status = 200
			}
			res := &http.Response{StatusCode: status, Request: req, Proto: "HTTP/1.1", ProtoMajor: 1, ProtoMinor: 1,
				Header: http.Header{"X-Exp": {rexp}, "X-Exp2": {rexp2}, "X-Cond": {cond}}, Body: ioutil.NopCloser(bytes.NewReader(nil))}
			m.ModifyRequest(req)
			m.ModifyResponse(res)
			remove()
			vf.WatchOff()
			if !api {
				for k := range vs {
					v := &vs[k]
					if (v.onTrue && cond != "1") || (v.onFalse && cond == "1") {
						continue
					}
					if v.pingback {
						if path == "/ping" {
							v.seen = true
						}
						continue
					}
					if v.qsValue || v.qsKey || v.method {
						if (v.qsValue && !valueMatches) || (v.qsKey && !keyPresent) || (v.method && meth != "POST") {
							v.reqFail++
						}
						continue
					}
					if v.status {
						if !ok200 {
							v.resFail++
						}
						continue
					}
					q, r := exp, rexp
					if v.second {
						q, r = exp2, rexp2
					}
					if q != "1" {
						v.reqFail++
					}
					if r != "1" {
						v.resFail++
					}
				}
			}
			vf.Reach("traffic")
		case 1:
			n := zzflatCount(m.VerifyRequests(), "request-query")
			vf.WatchOff()
			want := 0
			for _, v := range vs {
				want += v.reqFail
				if v.pingback && !v.seen {
					want++
				}
			}
			vf.Assert(n == want, "request-query:one-error-per-unmet-expectation-since-reset")
			vf.Reach("query")
		case 2:
			n := zzflatCount(m.VerifyResponses(), "response-query")
			vf.WatchOff()
			want := 0
			for _, v := range vs {
				want += v.resFail
			}
			vf.Assert(n == want, "response-query:one-error-per-unmet-expectation-since-reset")
			vf.Reach("query")
		case 3:
			m.ResetRequestVerifications()
			vf.WatchOff()
			initial := 0
			for k := range vs {
				vs[k].reqFail = 0
				vs[k].seen = false
				if vs[k].pingback {
					initial++
				}
			}
			vf.Assert(zzflatCount(m.VerifyRequests(), "request-query-after-reset") == initial, "request-reset-returns-every-verifier-to-initial-state")
			vf.Reach("reset")
		case 4:
			m.ResetResponseVerifications()
			vf.WatchOff()
			for k := range vs {
				vs[k].resFail = 0
			}
			vf.Assert(m.VerifyResponses() == nil, "response-reset-returns-every-verifier-to-initial-state")
			vf.Reach("reset")
		}
	}
	// closing phase: a query changes nothing, so asking twice gives the same answer
	wantReq, wantRes := 0, 0
	for _, v := range vs {
		wantReq += v.reqFail
		wantRes += v.resFail
		if v.pingback && !v.seen {
			wantReq++
		}
	}
	for k := 0; k < 2; k++ {
		vf.WatchOn()
		nq := zzflatCount(m.VerifyRequests(), "closing-request-query")
		nr := zzflatCount(m.VerifyResponses(), "closing-response-query")
		vf.WatchOff()
		vf.Assert(nq == wantReq, "repeated-request-query:one-error-per-unmet-expectation-since-reset")
		vf.Assert(nr == wantRes, "repeated-response-query:one-error-per-unmet-expectation-since-reset")
	}
	vf.Reach("done")
}

// VerifC13Endpoint: the same one-error-per-unmet-expectation answer through the verification
// endpoint (verify.Handler, as the proxy binary mounts it): the JSON it returns lists exactly
// the errors the tree reports, also for a verifier whose single error message spans several
// lines (a URL verifier names every mismatching part on its own line).
func VerifC13Endpoint() {
	m := NewModifier()
	cfg := `{"fifo.Group": {"modifiers": [{"url.Verifier": {"scheme": "https", "host": "want.example", "path": "/w"}}, ` + zzhv + `, ` + zzsv + `]}}`
	vf.Assert(zzpost(m, cfg) == 200, "configuration-accepted")
	wantReq, wantRes := 0, 0
	for i, n := 0, vf.Choice("exchanges", 3); i < n; i++ {
		exp := []string{"1", "0"}[vf.Choice("x-exp", 2)] // (the message text goes into the JSON: kept concrete)
		u := &url.URL{Scheme: "http", Host: "h", Path: "/"}
		urlOK := vf.Choice("url-matches", 3)
		switch urlOK {
		case 1:
			u = &url.URL{Scheme: "https", Host: "want.example", Path: "/w"}
		case 2:
			u = &url.URL{Scheme: "https", Host: "want.example", Path: "/other"}
		}
		req := &http.Request{Method: "GET", URL: u, Host: u.Host, Proto: "HTTP/1.1", ProtoMajor: 1, ProtoMinor: 1,
			Header: http.Header{"X-Exp": {exp}}, Body: ioutil.NopCloser(bytes.NewReader(nil))}
		_, remove, err := martian.TestContext(req, nil, nil)
		vf.Assert(err == nil, "test-context")
		status := []int{200, 500}[vf.Choice("status", 2)]
		res := &http.Response{StatusCode: status, Request: req, Proto: "HTTP/1.1", ProtoMajor: 1, ProtoMinor: 1,
			Header: http.Header{"X-Exp": {"1"}}, Body: ioutil.NopCloser(bytes.NewReader(nil))}
		m.ModifyRequest(req)
		m.ModifyResponse(res)
		remove()
		if urlOK != 1 {
			wantReq++
		}
		if exp != "1" {
			wantReq++
		}
		if status != 200 {
			wantRes++
		}
	}
	h := verify.NewHandler()
	h.SetRequestVerifier(m)
	h.SetResponseVerifier(m)
	for k := 0; k < 2; k++ { // asking twice gives the same answer
		w := &zzrw{h: http.Header{}, status: 200}
		h.ServeHTTP(w, &http.Request{Method: "GET", URL: &url.URL{Path: "/verify"}, Header: http.Header{}})
		var got struct {
			Errors []struct {
				Message string `json:"message"`
			} `json:"errors"`
		}
		vf.Assert(w.status == 200 && json.Unmarshal(w.body.Bytes(), &got) == nil, "endpoint-answers-with-json")
		vf.Assert(len(got.Errors) == wantReq+wantRes, "endpoint:one-error-per-unmet-expectation-since-reset")
		vf.Assert(zzflatCount(m.VerifyRequests(), "endpoint-request-query") == wantReq && zzflatCount(m.VerifyResponses(), "endpoint-response-query") == wantRes, "endpoint:tree-agrees")
	}
	vf.Reach("done")
}
