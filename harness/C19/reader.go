//go:build verif

package marbl

import (
	"bytes"

	"github.com/google/martian/v3/zzverif/vf"
)

func zzbe32(b []byte) uint32 {
	return uint32(b[0])<<24 | uint32(b[1])<<16 | uint32(b[2])<<8 | uint32(b[3])
}

// VerifC19ReaderRobust feeds the frame reader a fully symbolic byte string
// (frame type, message type, id, all length fields and payload), truncated at
// every possible length, and requires: no panic, frame XOR error, and for
// well-formed input the decoded frame equals an independent parse.
func VerifC19ReaderRobust() {
	k := vf.Param("payload")
	total := 10 + 9 + k
	in := vf.Bytes("in", total)
	n := vf.Choice("len", total+1)
	data := in[:n]

	// Bound on declared lengths: the 32-bit sum of the declared lengths is at
	// most k. Individually the lengths are unconstrained 32-bit values, so
	// sums that wrap around are inside the bound.
	vf.Assumption("C19 reader: declared 32-bit total payload length (name+value, or data) <= payload bound; larger declarations behave as short reads and are outside the bound")
	isHeader, isData := false, false
	var nl, vl, dl uint32
	if n >= 1 {
		isHeader = FrameType(in[0]) == HeaderFrame
		isData = FrameType(in[0]) == DataFrame
	}
	if isHeader && n >= 18 {
		nl, vl = zzbe32(in[10:14]), zzbe32(in[14:18])
		vf.Assume(nl+vl <= uint32(k))
	}
	if isData && n >= 19 {
		dl = zzbe32(in[15:19])
		vf.Assume(dl <= uint32(k))
	}

	f, err := NewReader(bytes.NewReader(data)).ReadFrame()

	vf.Assert((f == nil) != (err == nil), "frame-xor-error")
	switch {
	case isHeader:
		// well-formed iff lengths fit in what is available, without wrap-around
		avail := uint32(0)
		if n >= 18 {
			avail = uint32(n - 18)
		}
		wf := n >= 18 && nl <= avail && vl <= avail-nl
		vf.Assert((err == nil) == wf, "header-error-iff-malformed")
		if err == nil {
			h, ok := f.(Header)
			vf.Assert(ok, "header-type")
			vf.Assert(h.ID == string(in[2:10]), "header-id")
			vf.Assert(uint8(h.MessageType) == in[1], "header-msgtype")
			vf.Assert(h.Name == string(in[18:18+nl]), "header-name")
			vf.Assert(h.Value == string(in[18+nl:18+nl+vl]), "header-value")
			vf.Reach("header-ok")
		}
	case isData:
		avail := uint32(0)
		if n >= 19 {
			avail = uint32(n - 19)
		}
		wf := n >= 19 && dl <= avail
		vf.Assert((err == nil) == wf, "data-error-iff-malformed")
		if err == nil {
			d, ok := f.(Data)
			vf.Assert(ok, "data-type")
			vf.Assert(d.ID == string(in[2:10]), "data-id")
			vf.Assert(uint8(d.MessageType) == in[1], "data-msgtype")
			vf.Assert(d.Index == zzbe32(in[10:14]), "data-index")
			vf.Assert(d.Terminal == (in[14] == 1), "data-terminal")
			vf.Assert(bytes.Equal(d.Data, in[19:19+dl]), "data-bytes")
			vf.Reach("data-ok")
		}
	default:
		vf.Assert(err != nil, "unknown-type-is-error")
		vf.Reach("unknown-type")
	}
	vf.Reach("done")
}
