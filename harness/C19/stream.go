//go:build verif

package marbl

import (
	"bytes"
	"io"
	"net/http"
	"net/url"
	"sync"

	"github.com/google/martian/v3"
	"github.com/google/martian/v3/zzverif/vf"
)

// recWriter records every Write call separately.
type zzrecWriter struct {
	mu     sync.Mutex
	writes [][]byte
}

func (w *zzrecWriter) Write(b []byte) (int, error) {
	w.mu.Lock()
	w.writes = append(w.writes, append([]byte(nil), b...))
	w.mu.Unlock()
	return len(b), nil
}

type zzpframe struct {
	header   bool
	mt       byte
	id       string
	name     string
	value    string
	index    uint32
	terminal bool
	data     []byte
}

// parseOne is the independent parser: b must be exactly one frame.
func zzparseOne(b []byte) (zzpframe, bool) {
	var f zzpframe
	if len(b) < 10 {
		return f, false
	}
	f.mt, f.id = b[1], string(b[2:10])
	switch b[0] {
	case 1:
		f.header = true
		if len(b) < 18 {
			return f, false
		}
		nl, vl := int(zzbe32(b[10:14])), int(zzbe32(b[14:18]))
		if len(b) != 18+nl+vl {
			return f, false
		}
		f.name, f.value = string(b[18:18+nl]), string(b[18+nl:])
	case 2:
		if len(b) < 19 {
			return f, false
		}
		f.index, f.terminal = zzbe32(b[10:14]), b[14] == 1
		dl := int(zzbe32(b[15:19]))
		if len(b) != 19+dl {
			return f, false
		}
		f.data = b[19:]
	default:
		return f, false
	}
	return f, true
}

type zzstep struct {
	n   int
	err error
}

type zzstepBody struct {
	data  []byte
	steps []zzstep
	calls int
}

func (b *zzstepBody) Read(p []byte) (int, error) {
	if b.calls >= len(b.steps) {
		return 0, io.EOF
	}
	s := b.steps[b.calls]
	b.calls++
	n := s.n
	if n > len(p) {
		n = len(p)
	}
	if n > len(b.data) {
		n = len(b.data)
	}
	copy(p, b.data[:n])
	b.data = b.data[n:]
	return n, s.err
}
func (b *zzstepBody) Close() error { return nil }

func zzc19req(hv string) *http.Request {
	return &http.Request{Method: "PUT", URL: &url.URL{Scheme: "https", Host: "example.com", Path: "/a b", RawQuery: "q=1"}, Host: "example.com",
		Header: http.Header{"X-Sym": {hv}, "X-Two": {"1", "2"}}, Proto: "HTTP/1.1", ProtoMajor: 1, ProtoMinor: 1, RemoteAddr: "10.0.0.9:99", ContentLength: -1}
}

// VerifC19Stream: one logged request; the emitted frames parse back (with the
// real Reader and with the independent parser) to the message's pseudo
// headers and headers, and to data frames with contiguous indices whose
// concatenation is what the consumer read, terminal iff the body hit EOF.
func VerifC19Stream() {
	w := &zzrecWriter{}
	s := NewStream(w)
	id := vf.String("id", 8)
	hv := vf.String("header-value", vf.Choice("header-value-len", 3))
	req := zzc19req(hv)
	_, remove, err := martian.TestContext(req, nil, nil)
	vf.Assert(err == nil, "test-context")
	defer remove()
	reads := 1 + vf.Choice("reads", vf.Param("reads"))
	sb := &zzstepBody{data: vf.Bytes("body", 2*reads)}
	sawEOF := false
	for i := 0; i < reads; i++ {
		st := zzstep{n: vf.Choice("n", 3)}
		if vf.Choice("eof", 2) == 1 {
			st.err = io.EOF
		}
		sb.steps = append(sb.steps, st)
	}
	req.Body = sb
	if vf.Choice("empty-body-is-http-nobody", 2) == 1 {
		// what net/http hands out for a message without a body: it reports end-of-file at once
		req.Body = http.NoBody
	}
	vf.Assert(s.LogRequest(id, req) == nil, "log-request")
	var consumed []byte
	early := vf.Choice("stop-early", 2) == 1
	for i := 0; i < reads+1; i++ {
		if early && i == reads-1 {
			break
		}
		p := make([]byte, 2)
		n, e := req.Body.Read(p)
		consumed = append(consumed, p[:n]...)
		if e == io.EOF {
			sawEOF = true
			break
		}
	}
	vf.Quiesce()

	// every write is exactly one frame; decode with both parsers
	var all bytes.Buffer
	var frames []zzpframe
	for _, wr := range w.writes {
		f, ok := zzparseOne(wr)
		vf.Assert(ok, "each-write-is-one-whole-frame")
		frames = append(frames, f)
		all.Write(wr)
	}
	rd := NewReader(&all)
	for i := range frames {
		fr, err := rd.ReadFrame()
		vf.Assert(err == nil, "reader-decodes-emitted-frame")
		if err != nil {
			break
		}
		if frames[i].header {
			h, ok := fr.(Header)
			vf.Assert(ok && h.ID == id && h.MessageType == Request && h.Name == frames[i].name && h.Value == frames[i].value, "reader-agrees-on-header-frame")
		} else {
			d, ok := fr.(Data)
			vf.Assert(ok && d.ID == id && d.MessageType == Request && d.Index == frames[i].index && d.Terminal == frames[i].terminal && bytes.Equal(d.Data, frames[i].data), "reader-agrees-on-data-frame")
		}
	}
	want := map[string]string{":method": "PUT", ":scheme": "https", ":authority": "example.com", ":path": "/a%20b", ":query": "q=1", ":proto": "HTTP/1.1", ":remote": "10.0.0.9:99", "Host": "example.com", "X-Sym": hv}
	seen := map[string]int{}
	var data []byte
	next := uint32(0)
	terminal := false
	for _, f := range frames {
		vf.Assert(f.id == id && f.mt == byte(Request), "frame-id-and-type")
		if f.header {
			seen[f.name]++
			if v, ok := want[f.name]; ok {
				vf.Assert(f.value == v, "header-value")
			}
			continue
		}
		vf.Assert(!terminal, "no-data-after-terminal")
		vf.Assert(f.index == next, "data-indices-contiguous-from-zero")
		next++
		data = append(data, f.data...)
		terminal = f.terminal
	}
	for k := range want {
		vf.Assert(seen[k] == 1, "every-pseudo-header-and-header-logged-once")
	}
	vf.Assert(seen["X-Two"] == 2, "multi-valued-header-logged-per-value")
	vf.Assert(bytes.Equal(data, consumed), "data-frames-concatenate-to-the-bytes-read")
	vf.Assert(terminal == sawEOF, "terminal-iff-body-reached-eof")
	vf.Reach("done")
}

// VerifC19Concurrent: two messages logged from two goroutines under every
// schedule within the preemption bound: frames are never torn or interleaved
// within a frame, and per message the frames keep their order.
func VerifC19Concurrent() {
	w := &zzrecWriter{}
	s := NewStream(w)
	ids := []string{"AAAAAAAA", "BBBBBBBB"}
	// Two phases. Logging the requests emits a dozen header frames per message; that phase runs
	// under one schedule. Then both consumers read their bodies at the same time, and every
	// schedule of that phase within the preemption bound is explored.
	vf.FixedSchedule(true)
	var wg, logged sync.WaitGroup
	start := make(chan struct{})
	for k := 0; k < 2; k++ {
		k := k
		wg.Add(1)
		logged.Add(1)
		go func() {
			defer wg.Done()
			// through the exported API only: log a request, then read its body to the end
			req := &http.Request{Method: "PUT", URL: &url.URL{Scheme: "http", Host: "h", Path: "/"}, Host: "h", Header: http.Header{},
				Proto: "HTTP/1.1", ProtoMajor: 1, ProtoMinor: 1, ContentLength: 2,
				Body: &zzstepBody{data: []byte{byte('a' + k), byte('a' + k)}, steps: []zzstep{{n: 2}, {n: 0, err: io.EOF}}}}
			_, remove, err := martian.TestContext(req, nil, nil)
			if err == nil {
				defer remove()
				err = s.LogRequest(ids[k], req)
			}
			logged.Done()
			<-start
			if err != nil {
				return
			}
			p := make([]byte, 2)
			for i := 0; i < 3; i++ {
				if _, err := req.Body.Read(p); err != nil {
					break
				}
			}
		}()
	}
	logged.Wait()
	vf.Quiesce()
	vf.FixedSchedule(false)
	close(start)
	wg.Wait()
	vf.Quiesce()
	per := map[string][]zzpframe{}
	for _, wr := range w.writes {
		f, ok := zzparseOne(wr)
		vf.Assert(ok, "each-write-is-one-whole-frame")
		per[f.id] = append(per[f.id], f)
	}
	for k, id := range ids {
		fs := per[id]
		var data []byte
		next, seenData, terminal := uint32(0), false, false
		for _, f := range fs {
			if f.header {
				vf.Assert(!seenData, "per-message-order-kept")
				continue
			}
			seenData = true
			vf.Assert(!terminal && f.index == next, "per-message-order-kept")
			next++
			data = append(data, f.data...)
			terminal = f.terminal
		}
		vf.Assert(len(fs) > 0 && terminal, "every-message-logged-to-its-terminal-frame")
		vf.Assert(len(data) == 2 && data[0] == byte('a'+k) && data[1] == byte('a'+k), "data-belongs-to-its-message")
	}
	vf.Reach("done")
}

// zzteeWriter keeps a copy of every frame and passes the frame on to the package's own Handler.
type zzteeWriter struct {
	rec zzrecWriter
	h   *Handler
}

func (w *zzteeWriter) Write(b []byte) (int, error) {
	w.rec.Write(b)
	return w.h.Write(b)
}

// VerifC19Subscriber: the stream feeding the package's own Handler (as the proxy binary wires
// it) with a subscriber that lags behind - it takes nothing until everything has been logged.
// What it then receives is, frame for frame, what the stream emitted.
func VerifC19Subscriber() {
	vf.FixedSchedule(true) // the subject is what the frames hold, under one schedule
	h := NewHandler()
	fc := make(chan []byte, 64)
	h.subscribe("s", fc)
	w := &zzteeWriter{h: h}
	s := NewStream(w)
	msgs := 1 + vf.Choice("requests", 2)
	for k := 0; k < msgs; k++ {
		req := zzc19req("v" + string(rune('0'+k)))
		_, remove, err := martian.TestContext(req, nil, nil)
		vf.Assert(err == nil, "test-context")
		reads := 1 + vf.Choice("reads", 3)
		sb := &zzstepBody{data: vf.Bytes("body", 2*reads)}
		for i := 0; i < reads; i++ {
			st := zzstep{n: 1 + vf.Choice("n", 2)}
			if i == reads-1 {
				st.err = io.EOF
			}
			sb.steps = append(sb.steps, st)
		}
		req.Body = sb
		vf.Assert(s.LogRequest("request"+string(rune('0'+k)), req) == nil, "log-request")
		for i := 0; i < reads+1; i++ {
			p := make([]byte, 2)
			if _, e := req.Body.Read(p); e == io.EOF {
				break
			}
		}
		remove()
	}
	vf.Quiesce()
	vf.Assert(len(fc) == len(w.rec.writes), "subscriber-receives-every-frame")
	for i := 0; i < len(w.rec.writes) && len(fc) > 0; i++ {
		got := <-fc
		vf.Assert(bytes.Equal(got, w.rec.writes[i]), "subscriber-receives-the-frames-as-emitted")
	}
	vf.Reach("done")
}
