//go:build verif

package har

import (
	"bytes"
	"encoding/json"
	"strconv"
	"strings"

	"github.com/google/martian/v3/zzverif/msg"
	"github.com/google/martian/v3/zzverif/vf"
)

func zzhasHeader(hs []Header, name, value string) bool {
	for _, h := range hs {
		if h.Name == name && h.Value == value {
			return true
		}
	}
	return false
}

var zzc16ct = []string{"text/plain", "application/x-www-form-urlencoded", "application/octet-stream", "", "multipart/form-data; boundary=b"}

// VerifC16Request: the HAR request entry describes the request; post data is
// the body as the origin receives it (un-chunked, not content-decoded),
// parsed into parameters for form bodies.
func VerifC16Request() {
	framing := vf.Choice("framing", 2) // Content-Length or chunked
	ct := zzc16ct[vf.Choice("content-type", len(zzc16ct))]
	var wire []byte
	var k, v string
	form := ct == "application/x-www-form-urlencoded"
	multi := strings.HasPrefix(ct, "multipart/")
	if form || multi {
		// k=v with symbolic unreserved characters
		k, v = vf.String("form-key", 1), vf.String("form-value", vf.Choice("form-value-len", 3))
		for _, s := range []string{k, v} {
			for i := 0; i < len(s); i++ {
				c := s[i]
				vf.Assume((c >= 'a' && c <= 'z') || (c >= '0' && c <= '9'))
			}
		}
		wire = []byte(k + "=" + v)
		if multi {
			wire = []byte("--b\r\nContent-Disposition: form-data; name=\"" + k + "\"; filename=\"n.txt\"\r\nContent-Type: text/x-v\r\n\r\n" + v + "\r\n--b--\r\n")
		}
	} else {
		wire = vf.Bytes("body", vf.Choice("body-len", vf.Param("bodylens")))
	}
	// a request body may carry a content coding; the origin receives it still coded, so that
	// is what the post data must show (coded properly, or merely labelled as such)
	enc := ""
	if !form && !multi {
		switch vf.Choice("request-content-encoding", 4) {
		case 1:
			enc, wire = "gzip", vf.Enc("gzip", wire)
		case 2:
			enc, wire = "deflate", vf.Enc("deflate", wire)
		case 3:
			enc = "gzip" // labelled gzip, arbitrary bytes
		}
	}
	// the query string: plain, or with escapes in names and values (the entry lists the decoded
	// parameters; the URL keeps the text the client sent)
	rawq, qn, qv := "a=1&b=two", [2]string{"a", "b"}, [2]string{"1", "two"}
	if vf.Choice("query-escapes", 2) == 1 {
		rawq, qn, qv = "f%5Bn%5D=x%20y&first+name=A+B", [2]string{"f[n]", "first name"}, [2]string{"x y", "A B"}
	}
	spec := msg.Spec{Framing: framing, Wire: wire, Encoding: enc, ContentType: ct, Query: rawq, Cookie: "sid=abc"}
	req, _ := msg.NewRequest(spec)
	withBody := vf.Choice("capture", 2) == 1
	hr, err := NewRequest(req, withBody)
	vf.Assert(err == nil, "request-entry-built")
	if err != nil {
		return
	}
	vf.Assert(hr.Method == "POST" && hr.URL == "http://example.com/p?"+rawq && hr.HTTPVersion == "HTTP/1.1", "method-url-version")
	vf.Assert(zzhasHeader(hr.Headers, "Host", "example.com"), "host-header-listed")
	if framing == msg.FrameChunked {
		vf.Assert(zzhasHeader(hr.Headers, "Transfer-Encoding", "chunked"), "transfer-encoding-listed")
	} else if len(wire) > 0 {
		// a zero Content-Length is indistinguishable from an absent one in net/http's request
		vf.Assert(zzhasHeader(hr.Headers, "Content-Length", strconv.Itoa(len(wire))), "content-length-listed")
	}
	vf.Assert(zzhasHeader(hr.Headers, "X-Multi", "a") && zzhasHeader(hr.Headers, "X-Multi", "b"), "multi-valued-header-listed")
	vf.Assert(len(hr.QueryString) == 2, "query-parameters")
	for _, q := range hr.QueryString {
		vf.Assert((q.Name == qn[0] && q.Value == qv[0]) || (q.Name == qn[1] && q.Value == qv[1]), "query-parameter-values")
	}
	vf.Assert(len(hr.Cookies) == 1 && hr.Cookies[0].Name == "sid" && hr.Cookies[0].Value == "abc", "cookies")
	hasBody := len(wire) > 0 || framing == msg.FrameChunked
	if !hasBody {
		vf.Assert(hr.PostData == nil, "no-body-no-post-data")
		vf.Reach("no-body")
	} else {
		vf.Assert(hr.PostData != nil, "post-data-present")
		if hr.PostData != nil {
			if !withBody {
				vf.Assert(hr.PostData.Text == "" && len(hr.PostData.Params) == 0, "capture-off-no-content")
			} else if form || multi {
				vf.Assert(len(hr.PostData.Params) == 1, "form-body-parsed-into-parameters")
				if len(hr.PostData.Params) == 1 {
					vf.Assert(hr.PostData.Params[0].Name == k && hr.PostData.Params[0].Value == v, "form-parameter")
					if multi {
						vf.Assert(hr.PostData.Params[0].Filename == "n.txt" && hr.PostData.Params[0].ContentType == "text/x-v", "multipart-parameter-file-name-and-type")
					}
				}
				vf.Reach("form")
			} else {
				vf.Assert(hr.PostData.Text == string(wire), "post-data-is-the-body-as-the-origin-receives-it")
				vf.Reach("text")
			}
		}
	}
	vf.Reach("done")
}

// VerifC16Response: status, redirect URL, headers, and content = fully
// decoded body with its true size.
func VerifC16Response() {
	framing := vf.Choice("framing", 3)
	enc := []string{"", "gzip", "deflate"}[vf.Choice("content-encoding", 3)]
	plain := vf.Bytes("body", vf.Choice("body-len", vf.Param("bodylens")))
	wire := plain
	if enc != "" {
		wire = vf.Enc(enc, plain)
	}
	redirect := vf.Choice("redirect", 2) == 1
	spec := msg.Spec{Framing: framing, Wire: wire, Encoding: enc, ContentType: "text/html"}
	if redirect {
		spec.Status, spec.Location = 302, "http://example.com/next"
	}
	req, _ := msg.NewRequest(msg.Spec{})
	res, _ := msg.NewResponse(spec, req)
	withBody := vf.Choice("capture", 2) == 1
	hs, err := NewResponse(res, withBody)
	vf.Assert(err == nil, "response-entry-built")
	if err != nil {
		return
	}
	want := 200
	if redirect {
		want = 302
	}
	vf.Assert(hs.Status == want && hs.HTTPVersion == "HTTP/1.1", "status-and-version")
	if redirect {
		vf.Assert(hs.RedirectURL == "http://example.com/next", "redirect-url")
	} else {
		vf.Assert(hs.RedirectURL == "", "no-redirect-url")
	}
	switch framing {
	case msg.FrameChunked:
		vf.Assert(zzhasHeader(hs.Headers, "Transfer-Encoding", "chunked"), "transfer-encoding-listed")
	case msg.FrameLength:
		if len(wire) > 0 {
			vf.Assert(zzhasHeader(hs.Headers, "Content-Length", strconv.Itoa(len(wire))), "content-length-listed")
		}
	}
	if enc != "" {
		vf.Assert(zzhasHeader(hs.Headers, "Content-Encoding", enc), "content-encoding-listed")
	}
	vf.Assert(hs.Content != nil && hs.Content.MimeType == "text/html", "content-mime-type")
	if withBody && hs.Content != nil {
		vf.Assert(bytes.Equal(hs.Content.Text, plain), "content-is-the-fully-decoded-body")
		vf.Assert(hs.Content.Size == int64(len(plain)), "content-size-is-the-decoded-size")
		vf.Reach("captured")
	}
	if !withBody && hs.Content != nil {
		vf.Assert(len(hs.Content.Text) == 0, "capture-off-no-content")
	}
	vf.Reach("done")
}

// VerifC16Redirect: the status is a symbolic integer, so z3 decides for which
// statuses the entry carries the redirect URL: every 3xx response with a
// Location header, no other.
func VerifC16Redirect() {
	st := vf.Int("status")
	vf.Assume(st >= 200 && st <= 410)
	hasLocation := vf.Choice("location-header", 2) == 1
	spec := msg.Spec{Wire: nil, ContentType: "text/html"}
	if hasLocation {
		spec.Location = "http://example.com/next?to=here"
	}
	req, _ := msg.NewRequest(msg.Spec{})
	res, _ := msg.NewResponse(spec, req)
	res.StatusCode = st
	hs, err := NewResponse(res, false)
	vf.Assert(err == nil, "response-entry-built")
	if err != nil {
		return
	}
	vf.Assert(hs.Status == st, "status-and-version")
	if st >= 300 && st < 400 && hasLocation {
		vf.Assert(hs.RedirectURL == "http://example.com/next?to=here", "redirect-url")
		vf.Reach("redirect")
	} else {
		vf.Assert(hs.RedirectURL == "", "no-redirect-url")
	}
	vf.Reach("done")
}

var zzalphabet = []byte{'a', '"', '\\', 0x01, 0x7f, 0x80, 0xc3, 0xa9, 0xff, '<', 0xe2, 0x80, 0xa8}

// VerifC16JSON: PostData and Content survive Marshal -> Unmarshal exactly for
// byte strings over an alphabet that includes quotes, control bytes, valid
// multi-byte sequences and invalid UTF-8.
func VerifC16JSON() {
	n := vf.Choice("len", vf.Param("strlen")+1)
	b := make([]byte, n)
	for i := range b {
		b[i] = zzalphabet[vf.Choice("byte", len(zzalphabet))]
	}
	pd := &PostData{MimeType: "text/plain", Params: []Param{{Name: "n", Value: "v"}}, Text: string(b)}
	js, err := json.Marshal(pd)
	vf.Assert(err == nil, "post-data-marshals")
	var back PostData
	vf.Assert(json.Unmarshal(js, &back) == nil, "post-data-unmarshals")
	vf.Assert(back.Text == pd.Text, "post-data-text-preserved-exactly")
	vf.Assert(back.MimeType == pd.MimeType && len(back.Params) == 1 && back.Params[0] == pd.Params[0], "post-data-fields-preserved")

	c := Content{Size: int64(n), MimeType: "image/png", Text: b, Encoding: []string{"", "base64"}[vf.Choice("content-encoding", 2)]}
	cj, err := json.Marshal(c)
	vf.Assert(err == nil, "content-marshals")
	var cb Content
	vf.Assert(json.Unmarshal(cj, &cb) == nil, "content-unmarshals")
	if c.Encoding == "base64" || !strings.ContainsAny(string(b), "\x80\xff\xc3\xe2\xa9\xa8") {
		vf.Assert(bytes.Equal(cb.Text, c.Text) || (len(cb.Text) == 0 && len(c.Text) == 0), "content-text-preserved-exactly")
	}
	vf.Assert(cb.Size == c.Size && cb.MimeType == c.MimeType && cb.Encoding == c.Encoding, "content-fields-preserved")
	vf.Reach("done")
}

// VerifC16EntryRoundTrip: entries as the logger builds them (NewRequest /
// NewResponse with capture on) survive Marshal -> Unmarshal with their bodies
// preserved exactly, for short bodies over the byte alphabet and for long ones
// (a 510..512 byte ASCII prefix followed by two alphabet bytes, so that any
// sniffing of a leading window sees only text).
func VerifC16EntryRoundTrip() {
	var body []byte
	if vf.Choice("long-body", 2) == 1 {
		body = bytes.Repeat([]byte("a"), 510+vf.Choice("prefix", 3))
	}
	for i, n := 0, vf.Choice("tail-len", 3); i < n; i++ {
		body = append(body, zzalphabet[vf.Choice("byte", len(zzalphabet))])
	}
	ct := []string{"text/html", "image/png"}[vf.Choice("content-type", 2)]
	req, _ := msg.NewRequest(msg.Spec{Wire: body, ContentType: ct})
	res, _ := msg.NewResponse(msg.Spec{Wire: body, ContentType: ct}, req)
	hq, err := NewRequest(req, true)
	vf.Assert(err == nil, "request-entry-built")
	hs, err2 := NewResponse(res, true)
	vf.Assert(err2 == nil, "response-entry-built")
	if err != nil || err2 != nil {
		return
	}
	js, merr := json.Marshal(&Entry{Request: hq, Response: hs})
	vf.Assert(merr == nil, "entry-marshals")
	var back Entry
	vf.Assert(json.Unmarshal(js, &back) == nil, "entry-unmarshals")
	if back.Response == nil || back.Response.Content == nil || back.Request == nil {
		vf.Fail("entry-round-trip-keeps-request-and-response")
		return
	}
	vf.Assert(bytes.Equal(back.Response.Content.Text, body) || (len(body) == 0 && len(back.Response.Content.Text) == 0), "response-content-preserved-exactly")
	vf.Assert(back.Response.Content.Size == int64(len(body)), "response-content-size-is-the-true-size")
	if len(body) > 0 {
		vf.Assert(back.Request.PostData != nil && back.Request.PostData.Text == string(body), "request-post-data-preserved-exactly")
	}
	vf.Reach("done")
}

// VerifC16Options: body capture follows the configured content-type options.
func VerifC16Options() {
	cts := []string{"text/plain", "TEXT/html", "image/png", ""}
	ct := cts[vf.Choice("content-type", len(cts))]
	opt := vf.Choice("option", 4)
	l := NewLogger()
	want := true
	text := strings.HasPrefix(strings.ToLower(ct), "text/")
	switch opt {
	case 1:
		l.SetOption(PostDataLogging(false), BodyLogging(false))
		want = false
	case 2:
		l.SetOption(PostDataLoggingForContentTypes("text/"), BodyLoggingForContentTypes("text/"))
		want = text
	case 3:
		l.SetOption(SkipPostDataLoggingForContentTypes("text/"), SkipBodyLoggingForContentTypes("text/"))
		want = !text
	}
	req, _ := msg.NewRequest(msg.Spec{Wire: []byte("x"), ContentType: ct})
	res, _ := msg.NewResponse(msg.Spec{Wire: []byte("y"), ContentType: ct}, req)
	// observed through the log itself: what the recorded entry contains
	vf.Assert(l.RecordRequest("id", req) == nil && l.RecordResponse("id", res) == nil, "exchange-recorded")
	es := l.Export().Log.Entries
	vf.Assert(len(es) == 1 && es[0].Request != nil && es[0].Response != nil, "exchange-recorded")
	if len(es) != 1 || es[0].Request == nil || es[0].Response == nil {
		return
	}
	gotPost := es[0].Request.PostData != nil && es[0].Request.PostData.Text == "x"
	gotBody := es[0].Response.Content != nil && string(es[0].Response.Content.Text) == "y"
	vf.Assert(gotPost == want, "post-data-capture-follows-option")
	vf.Assert(gotBody == want, "body-capture-follows-option")
	if !want {
		vf.Assert(es[0].Request.PostData == nil || es[0].Request.PostData.Text == "", "capture-off-no-content")
		vf.Assert(es[0].Response.Content == nil || len(es[0].Response.Content.Text) == 0, "capture-off-no-content")
	}
	vf.Reach("done")
}
