//go:build verif

package static

import (
	"bytes"
	"errors"
	"io"
	"io/ioutil"
	"mime"
	"mime/multipart"
	"net/http"
	"net/url"
	"path/filepath"
	"strconv"
	"strings"

	"github.com/google/martian/v3"
	"github.com/google/martian/v3/zzverif/vf"
)

type zzclosedBody struct{ closed bool }

func (b *zzclosedBody) Read(p []byte) (int, error) {
	if b.closed {
		return 0, errors.New("http: read on closed response body")
	}
	return 0, errors.New("original body must not be forwarded")
}
func (b *zzclosedBody) Close() error { b.closed = true; return nil }

func zzfsPath(p string) string {
	if vf.Symbolic() {
		return p
	}
	return filepath.Join(vf.FSRoot, p)
}

// refClean resolves dot segments of an absolute path the textbook way.
func zzrefClean(p string) string {
	var out []string
	for _, seg := range strings.Split(p, "/") {
		switch seg {
		case "", ".":
		case "..":
			if len(out) > 0 {
				out = out[:len(out)-1]
			}
		default:
			out = append(out, seg)
		}
	}
	return "/" + strings.Join(out, "/")
}

func zzdigit(name string) (string, int) {
	d := vf.String(name, 1)
	vf.Assume(d[0] >= '0' && d[0] <= '9')
	return d, int(d[0] - '0')
}

// VerifC20Static: request paths with symbolic characters over "/", "." and a
// letter, and single Range specs with symbolic digits, against a stub file
// system with one file below the root and one outside it.
func VerifC20Static() {
	n := []int{0, 1, 3}[vf.Choice("file-len", 3)]
	content := vf.Bytes("file", n)
	vf.FSFile("/srv/www/a", content)
	vf.FSFile("/srv/secret", []byte("SECRET"))
	m := NewModifier(zzfsPath("/srv/www"))

	// request path: "/" followed by symbolic characters from {/, ., a}
	k := vf.Choice("path-len", vf.Param("pathlen")+1)
	tail := vf.String("path", k)
	for i := 0; i < len(tail); i++ {
		c := tail[i]
		vf.Assume(c == '/' || c == '.' || c == 'a')
	}
	path := "/" + tail
	req := &http.Request{Method: "GET", URL: &url.URL{Scheme: "http", Host: "h", Path: path}, Header: http.Header{}, Proto: "HTTP/1.1", ProtoMajor: 1, ProtoMinor: 1}
	_, remove, err := martian.TestContext(req, nil, nil)
	vf.Assert(err == nil, "test-context")
	defer remove()

	// Range header
	kind := vf.Choice("range-kind", 5)
	wantStart, wantEnd, satisfiable := 0, n-1, true
	type seg struct{ s, e int }
	var segs []seg // range-kind 4: the two resolved ranges
	switch kind {
	case 1: // bytes=a-b
		as, a := zzdigit("range-a")
		bs, b := zzdigit("range-b")
		req.Header["Range"] = []string{"bytes=" + as + "-" + bs}
		wantStart, wantEnd = a, b
		if b >= n {
			wantEnd = n - 1
		}
		satisfiable = a <= b && a < n
	case 2: // bytes=a-
		as, a := zzdigit("range-a")
		req.Header["Range"] = []string{"bytes=" + as + "-"}
		wantStart, wantEnd = a, n-1
		satisfiable = a < n
	case 3: // bytes=-s
		ss, s := zzdigit("range-s")
		req.Header["Range"] = []string{"bytes=-" + ss}
		if s > n {
			s = n
		}
		wantStart, wantEnd = n-s, n-1
		satisfiable = s > 0 && n > 0
	case 4: // bytes=a-b,c-d: one multipart part per range
		h := "bytes="
		for i, name := range []string{"range-a", "range-c"} {
			as, a := zzdigit(name)
			bs, b := zzdigit(name + "-last")
			if i > 0 {
				h += ","
			}
			h += as + "-" + bs
			if !(a <= b && a < n) {
				satisfiable = false
			}
			if b >= n {
				b = n - 1
			}
			segs = append(segs, seg{a, b})
		}
		req.Header["Range"] = []string{h}
	}
	ob := &zzclosedBody{}
	res := &http.Response{StatusCode: 200, Header: http.Header{}, Body: ob, ContentLength: 8, Request: req, Proto: "HTTP/1.1", ProtoMajor: 1, ProtoMinor: 1}

	merr := m.ModifyResponse(res) // a Go panic in here is reported by the engine

	// containment: every path handed to the file system lies beneath the root
	for _, p := range vf.FSOpened() {
		under := p == "/srv/www" || strings.HasPrefix(p, "/srv/www/")
		vf.Assert(under || zzisSystemFile(p), "opened-path-is-beneath-the-root")
	}
	if zzrefClean(path) != "/a" {
		vf.Assert(res.StatusCode == 404, "unknown-path-answers-404")
		vf.Reach("404")
		return
	}
	vf.Assert(merr == nil, "modifier-returns-no-error")
	got, rerr := ioutil.ReadAll(res.Body)
	vf.Assert(rerr == nil, "response-body-readable")
	vf.Assert(res.ContentLength == int64(len(got)), "content-length-matches-body")
	full := res.StatusCode == 200 && bytes.Equal(got, content)
	switch {
	case kind == 0:
		vf.Assert(full, "no-range-full-content")
		vf.Reach("full")
	case full:
		vf.Reach("full")
	case res.StatusCode == 416:
		vf.Assert(!satisfiable, "416-only-when-the-range-cannot-be-satisfied")
		vf.Reach("416")
	case kind == 4:
		vf.Assert(res.StatusCode == 206, "status-is-200-206-or-416")
		vf.Assert(satisfiable, "206-only-for-a-satisfiable-range")
		mt, ps, perr := mime.ParseMediaType(res.Header.Get("Content-Type"))
		vf.Assert(perr == nil && mt == "multipart/byteranges" && ps["boundary"] != "", "multipart-content-type")
		if perr != nil || !satisfiable {
			return
		}
		mr := multipart.NewReader(bytes.NewReader(got), ps["boundary"])
		for _, sg := range segs {
			part, err := mr.NextPart()
			vf.Assert(err == nil, "one-multipart-part-per-range")
			if err != nil {
				return
			}
			pb, _ := ioutil.ReadAll(part)
			vf.Assert(bytes.Equal(pb, content[sg.s:sg.e+1]), "multipart-part-bytes-exact")
			vf.Assert(part.Header.Get("Content-Range") == "bytes "+strconv.Itoa(sg.s)+"-"+strconv.Itoa(sg.e)+"/"+strconv.Itoa(n), "multipart-part-content-range-consistent")
		}
		_, err := mr.NextPart()
		vf.Assert(err == io.EOF, "one-multipart-part-per-range")
		vf.Reach("206-multi")
	default:
		vf.Assert(res.StatusCode == 206, "status-is-200-206-or-416")
		vf.Assert(satisfiable, "206-only-for-a-satisfiable-range")
		if satisfiable {
			vf.Assert(bytes.Equal(got, content[wantStart:wantEnd+1]), "range-bytes-exact")
			vf.Assert(res.Header.Get("Content-Range") == "bytes "+strconv.Itoa(wantStart)+"-"+strconv.Itoa(wantEnd)+"/"+strconv.Itoa(n), "content-range-consistent")
		}
		vf.Reach("206")
	}
	vf.Reach("done")
}

// isSystemFile exempts the MIME tables the mime package looks for.
func zzisSystemFile(p string) bool {
	return strings.HasSuffix(p, "mime.types") || strings.HasSuffix(p, "/globs2") || strings.HasPrefix(p, "/usr/share/") || strings.HasPrefix(p, "/etc/")
}
