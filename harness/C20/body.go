//go:build verif

package body

import (
	"bytes"
	"errors"
	"io"
	"io/ioutil"
	"net/http"
	"net/url"
	"strconv"

	"github.com/google/martian/v3/zzverif/vf"
)

// origBody is the body of the response being replaced; reading it after Close
// fails, as net/http's bodies do.
type zzorigBody struct {
	r      *bytes.Reader
	closed bool
}

func (b *zzorigBody) Read(p []byte) (int, error) {
	if b.closed {
		return 0, errors.New("http: read on closed response body")
	}
	return b.r.Read(p)
}
func (b *zzorigBody) Close() error { b.closed = true; return nil }

type zzrspec struct {
	valid       bool // syntactically a byte-range-spec
	suffix      bool
	first, last int  // last == -1: open ended
}

func zzisDigit(c byte) bool { return c >= '0' && c <= '9' }

// parseNum parses an unsigned decimal with optional surrounding spaces.
func zzparseNum(s string) (int, bool) {
	for len(s) > 0 && s[0] == ' ' {
		s = s[1:]
	}
	for len(s) > 0 && s[len(s)-1] == ' ' {
		s = s[:len(s)-1]
	}
	if len(s) == 0 || len(s) > 9 {
		return 0, false
	}
	n := 0
	for i := 0; i < len(s); i++ {
		if !zzisDigit(s[i]) {
			return 0, false
		}
		n = n*10 + int(s[i]-'0')
	}
	return n, true
}

// refParse is the reference reading of a Range header value after "bytes=":
// a comma separated list of first-last | first- | -suffix (RFC 7233 2.1).
func zzrefParse(set string) []zzrspec {
	var out []zzrspec
	start := 0
	for i := 0; i <= len(set); i++ {
		if i < len(set) && set[i] != ',' {
			continue
		}
		part := set[start:i]
		start = i + 1
		dash := -1
		for j := 0; j < len(part); j++ {
			if part[j] == '-' {
				dash = j
				break
			}
		}
		if dash < 0 {
			out = append(out, zzrspec{})
			continue
		}
		l, r := part[:dash], part[dash+1:]
		lblank := true
		for j := 0; j < len(l); j++ {
			if l[j] != ' ' {
				lblank = false
			}
		}
		rblank := true
		for j := 0; j < len(r); j++ {
			if r[j] != ' ' {
				rblank = false
			}
		}
		switch {
		case lblank && rblank:
			out = append(out, zzrspec{})
		case lblank:
			n, ok := zzparseNum(r)
			out = append(out, zzrspec{valid: ok, suffix: true, last: n})
		case rblank:
			n, ok := zzparseNum(l)
			out = append(out, zzrspec{valid: ok, first: n, last: -1})
		default:
			a, ok1 := zzparseNum(l)
			b, ok2 := zzparseNum(r)
			out = append(out, zzrspec{valid: ok1 && ok2 && a <= b, first: a, last: b})
		}
	}
	return out
}

// resolve turns a valid spec into positions within content of length n;
// ok=false means the range is unsatisfiable.
func (r zzrspec) resolve(n int) (int, int, bool) {
	if r.suffix {
		if r.last == 0 || n == 0 {
			return 0, 0, false
		}
		k := r.last
		if k > n {
			k = n
		}
		return n - k, n - 1, true
	}
	if r.first >= n {
		return 0, 0, false
	}
	last := r.last
	if last < 0 || last >= n {
		last = n - 1
	}
	return r.first, last, true
}

func zzcontentRange(s, e, n int) string {
	return "bytes " + strconv.Itoa(s) + "-" + strconv.Itoa(e) + "/" + strconv.Itoa(n)
}

const zzboundary = "b0undary"

func zzrunBody(content []byte, rangeHeader string, hasRange bool) {
	n := len(content)
	m := NewModifier(content, "text/plain")
	m.SetBoundary(zzboundary)
	req := &http.Request{Method: "GET", URL: &url.URL{Scheme: "http", Host: "h", Path: "/"}, Header: http.Header{}}
	if hasRange {
		req.Header["Range"] = []string{rangeHeader}
	}
	ob := &zzorigBody{r: bytes.NewReader([]byte("original"))}
	res := &http.Response{StatusCode: 200, Header: http.Header{}, Body: ob, ContentLength: 8, Request: req}

	err := m.ModifyResponse(res) // a Go panic in here is reported by the engine

	vf.Assert(err == nil, "modifier-returns-no-error")
	got, rerr := ioutil.ReadAll(res.Body)
	vf.Assert(rerr == nil, "response-body-readable")
	vf.Assert(res.ContentLength == int64(len(got)), "content-length-matches-body")

	full := res.StatusCode == 200 && bytes.Equal(got, content)
	if !hasRange {
		vf.Assert(full, "no-range-full-content")
		vf.Reach("no-range")
		return
	}
	if full {
		vf.Reach("full")
		return
	}
	specs := zzrefParse(rangeHeader[len("bytes="):])
	allOK := true
	type seg struct{ s, e int }
	var segs []seg
	for _, sp := range specs {
		if !sp.valid {
			allOK = false
			continue
		}
		s, e, ok := sp.resolve(n)
		if !ok {
			allOK = false
			continue
		}
		segs = append(segs, seg{s, e})
	}
	if res.StatusCode == 416 {
		vf.Assert(!allOK, "416-only-when-some-range-cannot-be-satisfied")
		vf.Reach("416")
		return
	}
	vf.Assert(res.StatusCode == 206, "status-is-200-206-or-416")
	vf.Assert(len(segs) > 0, "206-needs-a-satisfiable-range")
	vf.Assert(allOK, "206-only-when-every-range-is-valid-and-satisfiable")
	if len(segs) == 1 {
		s, e := segs[0].s, segs[0].e
		vf.Assert(bytes.Equal(got, content[s:e+1]), "single-range-bytes")
		vf.Assert(res.Header.Get("Content-Range") == zzcontentRange(s, e, n), "single-range-content-range")
		vf.Reach("206-single")
		return
	}
	var want bytes.Buffer
	for i, sg := range segs {
		if i > 0 {
			want.WriteString("\r\n")
		}
		want.WriteString("--" + zzboundary + "\r\n")
		want.WriteString("Content-Range: " + zzcontentRange(sg.s, sg.e, n) + "\r\n")
		want.WriteString("Content-Type: text/plain\r\n\r\n")
		want.Write(content[sg.s : sg.e+1])
	}
	want.WriteString("\r\n--" + zzboundary + "--\r\n")
	vf.Assert(bytes.Equal(got, want.Bytes()), "multipart-body")
	vf.Assert(res.Header.Get("Content-Type") == "multipart/byteranges; boundary="+zzboundary, "multipart-content-type")
	vf.Reach("206-multi")
}

var _ = io.EOF

// VerifC20BodyFree: Range = "bytes=" followed by up to `chars` free symbolic
// characters over the alphabet "0-9 , - space".
func VerifC20BodyFree() {
	lens := []int{0, 1, 3}
	n := lens[vf.Choice("bodylen", len(lens))]
	content := vf.Bytes("content", n)
	k := vf.Choice("rangelen", vf.Param("chars")+1)
	r := vf.String("r", k)
	for i := 0; i < len(r); i++ {
		c := r[i]
		vf.Assume(zzisDigit(c) || c == ',' || c == '-' || c == ' ')
	}
	zzrunBody(content, "bytes="+r, true)
	vf.Reach("done")
}

// VerifC20BodyNoRange: no Range header at all.
func VerifC20BodyNoRange() {
	n := vf.Choice("bodylen", 4)
	content := vf.Bytes("content", n)
	zzrunBody(content, "", false)
	vf.Reach("done")
}

// VerifC20BodyStructured: bytes=<a>-<b> and bytes=<a>-<b>,<c>-<d> with numbers
// of up to `digits` symbolic digits (reaches large values cheaply).
func VerifC20BodyStructured() {
	lens := []int{0, 1, 2, 5}
	n := lens[vf.Choice("bodylen", len(lens))]
	content := vf.Bytes("content", n)
	d := vf.Param("digits")
	num := func(name string) string {
		k := 1 + vf.Choice(name+".len", d)
		s := vf.String(name, k)
		for i := 0; i < len(s); i++ {
			vf.Assume(zzisDigit(s[i]))
		}
		return s
	}
	r := "bytes=" + num("a") + "-"
	if vf.Bool("closed1") {
		r += num("b")
	}
	if vf.Bool("two") {
		r += "," + num("c") + "-"
		if vf.Bool("closed2") {
			r += num("d")
		}
	}
	zzrunBody(content, r, true)
	vf.Reach("done")
}
