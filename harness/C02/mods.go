//go:build verif

package martian

import (
	"errors"
	"io"
	"net"
	"net/http"

	"github.com/google/martian/v3/mitm"
	"github.com/google/martian/v3/zzverif/vf"
)

const (
	zzbPass = iota
	zzbError
	zzbSkip
	zzbHijackReq
	zzbHijackRes
	zzbHijackReqErr // hijacks and returns an error from the same call
	zzbHijackResErr
)

// norm maps the hijack-and-fail behaviours to the plain hijack ones: what must hold after a
// hijack does not depend on what the hijacking modifier returned.
func zznorm(b int) int {
	switch b {
	case zzbHijackReqErr:
		return zzbHijackReq
	case zzbHijackResErr:
		return zzbHijackRes
	}
	return b
}

type zzexchangeRec struct {
	req         *http.Request
	reqCalls    int
	resCalls    int
	reqCtx      *Context
	resCtx      *Context
	resRequest  *http.Request
	originAtReq int  // origin calls seen when the request modifier ran
	stale       bool // the context already carried a value when the request modifier first saw it
	markSeen    bool // the response modifier found the request modifier's value in the context
}

// recorder is the request+response modifier under test conditions.
type zzrecorder struct {
	behave     []int
	recs       []*zzexchangeRec
	o          *zzorigin
	conn       *zzclientConn
	hijackedAt int // conn reads+writes+deadlines at the moment of hijack (-1: none)
	dials      *int
	errKind    int
}

var zzerrMod = errors.New("modifier failed")

// timeoutErr is a net.Error that reports a timeout, as a modifier doing network I/O may return.
type zztimeoutErr struct{}

func (zztimeoutErr) Error() string   { return "modifier timed out" }
func (zztimeoutErr) Timeout() bool   { return true }
func (zztimeoutErr) Temporary() bool { return true }

// modErr is the error a failing modifier returns: which kind is chosen once per run, the first
// time it is needed. Whatever a modifier's error is, it must not abort the exchange.
func (m *zzrecorder) modErr() error {
	if m.errKind == 0 {
		m.errKind = 1 + vf.Choice("modifier-error-kind", 4)
	}
	switch m.errKind {
	case 2:
		return io.EOF
	case 3:
		return io.ErrClosedPipe
	case 4:
		return zztimeoutErr{}
	}
	return zzerrMod
}

func (m *zzrecorder) rec(req *http.Request) *zzexchangeRec {
	for _, r := range m.recs {
		if r.req == req {
			return r
		}
	}
	r := &zzexchangeRec{req: req}
	m.recs = append(m.recs, r)
	return r
}

func (m *zzrecorder) activity() int {
	if m.conn == nil {
		return 0
	}
	return m.conn.reads + m.conn.writes + m.conn.deadline
}

func (m *zzrecorder) ModifyRequest(req *http.Request) error {
	r := m.rec(req)
	r.reqCalls++
	r.reqCtx = NewContext(req)
	r.originAtReq = len(m.o.seen)
	if _, ok := r.reqCtx.Get("verif-mark"); ok || r.reqCtx.SkippingRoundTrip() {
		r.stale = true
	}
	r.reqCtx.Set("verif-mark", r)
	if m.dials != nil {
		r.originAtReq += *m.dials
	}
	b := zzbPass
	if k := len(m.recs) - 1; k < len(m.behave) {
		b = m.behave[k]
	}
	switch b {
	case zzbError:
		return m.modErr()
	case zzbSkip:
		r.reqCtx.SkipRoundTrip()
	case zzbHijackReq, zzbHijackReqErr:
		c, _, err := r.reqCtx.Session().Hijack()
		vf.Assert(err == nil && c != nil, "hijack-succeeds")
		m.hijackedAt = m.activity()
		if b == zzbHijackReqErr {
			return m.modErr()
		}
	}
	return nil
}

func (m *zzrecorder) ModifyResponse(res *http.Response) error {
	r := m.rec(res.Request)
	r.resCalls++
	r.resCtx = NewContext(res.Request)
	r.resRequest = res.Request
	if r.resCtx == nil {
		// no context for the response's request: reported by the checks on resCtx below
		return nil
	}
	if v, ok := r.resCtx.Get("verif-mark"); ok && v == r {
		r.markSeen = true
	}
	k := -1
	for i, x := range m.recs {
		if x == r {
			k = i
		}
	}
	b := zzbPass
	if k >= 0 && k < len(m.behave) {
		b = m.behave[k]
	}
	switch b {
	case zzbError:
		return m.modErr()
	case zzbHijackRes, zzbHijackResErr:
		c, _, err := r.resCtx.Session().Hijack()
		vf.Assert(err == nil && c != nil, "hijack-succeeds")
		m.hijackedAt = m.activity()
		if b == zzbHijackResErr {
			return m.modErr()
		}
	}
	return nil
}

func zzliveContexts() int {
	ctxmu.RLock()
	defer ctxmu.RUnlock()
	return len(ctxs)
}

// VerifC02Plain: 1..N plain requests on one connection, each with a symbolic
// choice of modifier behaviour.
func VerifC02Plain() {
	n := 1 + vf.Choice("requests", vf.Param("requests"))
	var wire [][]byte
	var ms []string
	behave := make([]int, n)
	for i := 0; i < n; i++ {
		behave[i] = vf.Choice("behaviour", 7)
		wire = append(wire, zzreqSpec{method: "GET", path: "/r" + string(rune('0'+i)), hval: "v"}.wire())
		ms = append(ms, "GET")
	}
	conn := zznewClientConn("client", true, wire...)
	o := &zzorigin{}
	o.answer = func(i int, req *http.Request) (*http.Response, error) {
		return zzrawResponse(zzresSpec{status: 201, hval: "o", body: []byte("ok")}.wire(), req)
	}
	o.wraps = vf.Choice("round-tripper-works-on-a-copy-of-the-request", 2) == 1
	m := &zzrecorder{behave: behave, o: o, conn: conn, hijackedAt: -1}
	p := NewProxy()
	p.SetRoundTripper(o)
	p.SetRequestModifier(m)
	p.SetResponseModifier(m)
	zzserveConn(p, conn)
	zzcheckExchanges(m, conn, o, ms, behave, n)
	vf.Reach("done")
}

func zzcheckExchanges(m *zzrecorder, conn *zzclientConn, o *zzorigin, ms []string, behave []int, n int) {
	// exchanges up to and including the first hijack
	behave = append([]int(nil), behave...)
	for i := range behave {
		behave[i] = zznorm(behave[i])
	}
	served := n
	hijack := -1
	for i, b := range behave {
		if b == zzbHijackReq || b == zzbHijackRes {
			served, hijack = i+1, i
			break
		}
	}
	vf.Assert(len(m.recs) == served, "request-modifier-runs-for-every-request-read")
	var session *Session
	ids := map[string]bool{}
	origins := 0
	for i, r := range m.recs {
		vf.Assert(r.reqCalls == 1, "request-modifier-exactly-once")
		vf.Assert(r.reqCtx != nil, "context-available-to-request-modifier")
		vf.Assert(r.originAtReq == origins, "request-modifier-before-any-upstream-contact")
		b := behave[i]
		if b != zzbSkip && b != zzbHijackReq {
			origins++
		}
		if b == zzbHijackReq {
			vf.Assert(r.resCalls == 0, "no-response-modifier-after-request-hijack")
		} else {
			vf.Assert(r.resCalls == 1, "response-modifier-exactly-once")
			vf.Assert(r.resRequest == r.req, "response-request-is-that-same-request")
			vf.Assert(r.resCtx == r.reqCtx, "same-context-for-both-modifiers")
			vf.Assert(r.markSeen, "response-modifier-sees-what-the-request-modifier-stored-in-the-context")
		}
		vf.Assert(!r.stale, "context-of-an-exchange-carries-nothing-from-another-exchange")
		if r.reqCtx != nil {
			vf.Assert(!ids[r.reqCtx.ID()], "context-ids-unique-per-exchange")
			ids[r.reqCtx.ID()] = true
			if session == nil {
				session = r.reqCtx.Session()
			}
			vf.Assert(r.reqCtx.Session() == session, "session-shared-by-all-exchanges-of-the-connection")
		}
	}
	vf.Assert(len(o.seen) == origins, "upstream-contact-only-when-expected")
	vf.Assert(zzliveContexts() == 0, "no-context-retrievable-after-the-exchange")
	// what the client got
	got := zzclientView(conn.out.Bytes(), ms)
	want := served
	if hijack >= 0 {
		want = hijack // the hijacked exchange gets no proxy-written response
	}
	vf.Assert(len(got) == want, "one-response-per-non-hijacked-exchange")
	for i := 0; i < want && i < len(got); i++ {
		switch behave[i] {
		case zzbSkip:
			vf.Assert(got[i].status == 200, "skipped-round-trip-answers-200")
		case zzbError:
			vf.Assert(got[i].status == 201, "modifier-error-does-not-abort-the-exchange")
			vf.Assert(len(got[i].header["Warning"]) >= 1, "modifier-error-surfaces-as-warning")
		default:
			vf.Assert(got[i].status == 201, "origin-response-delivered")
		}
	}
	if hijack >= 0 {
		vf.Assert(m.activity() == m.hijackedAt, "no-proxy-io-on-a-hijacked-connection")
		vf.Assert(conn.closed >= 1, "hijacked-connection-closed-once-the-modifier-returned")
		vf.Reach("hijacked")
	}
}

type zztunnelTarget struct {
	*zzclientConn
}

// VerifC02Connect: a CONNECT request without MITM (dial succeeds or fails).
func VerifC02Connect() {
	behave := []int{vf.Choice("behaviour", 7)}
	dialOK := vf.Choice("dial-ok", 2) == 1
	wire := []byte("CONNECT example.com:443 HTTP/1.1\r\nHost: example.com:443\r\n\r\n")
	conn := zznewClientConn("client", true, wire)
	target := zznewClientConn("target", true)
	dials := 0
	o := &zzorigin{}
	m := &zzrecorder{behave: behave, o: o, conn: conn, hijackedAt: -1, dials: &dials}
	p := NewProxy()
	p.SetRoundTripper(o)
	p.SetDial(func(network, addr string) (net.Conn, error) {
		dials++
		if !dialOK {
			return nil, errors.New("connection refused")
		}
		return target, nil
	})
	p.SetRequestModifier(m)
	p.SetResponseModifier(m)
	// a hijacking modifier on a proxy that would otherwise intercept the tunnel: the CONNECT is
	// answered by the proxy itself (nothing is dialled) and no handshake takes place
	mitmOn := false
	if nb := zznorm(behave[0]); nb == zzbHijackReq || nb == zzbHijackRes {
		if mitmOn = vf.Choice("mitm-configured", 2) == 1; mitmOn {
			p.SetMITM(new(mitm.Config))
		}
	}
	zzserveConn(p, conn)
	vf.Assert(len(m.recs) == 1, "request-modifier-runs-for-the-connect-request")
	r := m.recs[0]
	vf.Assert(r.reqCalls == 1 && r.originAtReq == 0, "request-modifier-once-before-dialling")
	behave[0] = zznorm(behave[0])
	if behave[0] == zzbHijackReq {
		vf.Assert(dials == 0 && r.resCalls == 0, "hijacked-connect-is-not-dialled")
		vf.Assert(m.activity() == m.hijackedAt, "no-proxy-io-on-a-hijacked-connection")
	} else {
		if mitmOn {
			vf.Assert(dials == 0, "intercepted-connect-is-not-dialled")
		} else {
			vf.Assert(dials == 1, "connect-dials-once")
		}
		vf.Assert(r.resCalls == 1 && r.resRequest == r.req && r.resCtx == r.reqCtx, "response-modifier-once-with-same-request-and-context")
		got := zzclientView(conn.out.Bytes(), []string{"CONNECT"})
		if behave[0] == zzbHijackRes {
			vf.Assert(len(got) == 0, "no-response-written-after-response-hijack")
			vf.Assert(m.activity() == m.hijackedAt, "no-proxy-io-on-a-hijacked-connection")
		} else {
			vf.Assert(len(got) == 1, "connect-answered")
			if len(got) == 1 {
				if dialOK {
					vf.Assert(got[0].status == 200, "connect-200")
				} else {
					vf.Assert(got[0].status == 502 && len(got[0].header["Warning"]) >= 1, "connect-failure-502-with-warning")
				}
			}
		}
	}
	vf.Assert(zzliveContexts() == 0, "no-context-retrievable-after-the-exchange")
	vf.Assert(conn.closed >= 1, "connection-closed-at-the-end")
	vf.Reach("done")
}
