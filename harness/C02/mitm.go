//go:build verif

package martian

import (
	"bufio"
	"bytes"
	"crypto/tls"
	"io"
	"io/ioutil"
	"net"
	"net/http"
	"time"

	"github.com/google/martian/v3/mitm"
	"github.com/google/martian/v3/zzverif/vf"
)

// nativeMITM drives the MITM scenario over a real in-memory connection with
// the real crypto/tls and a real authority (native replay only). It returns the
// responses the client read: the CONNECT answer first, then those of the tunnel.
func zznativeMITM(p *Proxy, connect, inner []byte, n int) []zzgotRes {
	ca, priv, err := mitm.NewAuthority("verif", "verif", time.Hour)
	if err != nil {
		panic(err)
	}
	mc, err := mitm.NewConfig(ca, priv)
	if err != nil {
		panic(err)
	}
	p.SetMITM(mc)
	cc, pc := net.Pipe()
	var got []zzgotRes
	done := make(chan struct{})
	go func() {
		defer close(done)
		defer cc.Close()
		cc.SetDeadline(time.Now().Add(5 * time.Second))
		cc.Write(connect)
		br := bufio.NewReader(cc)
		res, err := http.ReadResponse(br, &http.Request{Method: "CONNECT"})
		if err != nil {
			return
		}
		got = append(got, zzgotRes{status: res.StatusCode, header: res.Header, ok: true})
		if res.StatusCode != 200 {
			return
		}
		tc := tls.Client(cc, &tls.Config{InsecureSkipVerify: true, ServerName: "example.com"})
		if err := tc.Handshake(); err != nil {
			return
		}
		tc.Write(inner)
		rbr := bufio.NewReader(tc)
		for i := 0; i < n; i++ {
			res, err := http.ReadResponse(rbr, &http.Request{Method: "GET"})
			if err != nil {
				return
			}
			body, berr := ioutil.ReadAll(res.Body)
			got = append(got, zzgotRes{status: res.StatusCode, header: res.Header, body: body, close: res.Close, ok: berr == nil})
		}
	}()
	zzserveConn(p, pc)
	<-done
	return got
}

// VerifC02MITM: a CONNECT on a MITM-enabled proxy, then a TLS hello and 1..N
// requests decrypted inside the tunnel; the CONNECT exchange and every tunnelled
// exchange each get one of the modifier behaviours pass / error / skip round trip.
func VerifC02MITM() {
	vf.TLSModel(true, "")
	n := 1 + vf.Choice("tunnelled-requests", vf.Param("requests"))
	behave := make([]int, 1+n)
	var inner bytes.Buffer
	ms := []string{}
	for i := range behave {
		behave[i] = vf.Choice("behaviour", 3) // bPass, bError, bSkip
		if i > 0 {
			inner.WriteString("GET /t" + string(rune('0'+i)) + " HTTP/1.1\r\nHost: example.com\r\n\r\n")
			ms = append(ms, "GET")
		}
	}
	connect := []byte("CONNECT example.com:443 HTTP/1.1\r\nHost: example.com:443\r\n\r\n")
	o := &zzorigin{}
	o.answer = func(i int, req *http.Request) (*http.Response, error) {
		return zzrawResponse(zzresSpec{status: 201, hval: "o", body: []byte("ok")}.wire(), req)
	}
	o.wraps = vf.Choice("round-tripper-works-on-a-copy-of-the-request", 2) == 1
	m := &zzrecorder{behave: behave, o: o, hijackedAt: -1}
	p := NewProxy()
	p.SetRoundTripper(o)
	p.SetRequestModifier(m)
	p.SetResponseModifier(m)
	var got []zzgotRes
	if vf.Symbolic() {
		p.SetMITM(new(mitm.Config))
		conn := zznewClientConn("client", true, connect, append([]byte{0x16, 0x01}, inner.Bytes()...))
		zzserveConn(p, conn)
		out := conn.out.Bytes()
		if k := bytes.Index(out, []byte{0x16, 0x02}); k >= 0 { // the model's server hello
			got = append(zzclientView(out[:k], []string{"CONNECT"}), zzclientView(out[k+2:], ms)...)
		} else {
			got = zzclientView(out, []string{"CONNECT"})
		}
		vf.Assert(conn.closed >= 1, "connection-closed-at-the-end")
	} else {
		got = zznativeMITM(p, connect, inner.Bytes(), n)
	}

	vf.Assert(len(m.recs) == 1+n, "request-modifier-runs-for-the-connect-and-every-decrypted-request")
	if len(m.recs) != 1+n {
		return
	}
	var session *Session
	ids := map[string]bool{}
	origins := 0
	for i, r := range m.recs {
		vf.Assert(r.reqCalls == 1, "request-modifier-exactly-once")
		vf.Assert(r.originAtReq == origins, "request-modifier-before-any-upstream-contact")
		if i > 0 && behave[i] != zzbSkip {
			origins++
		}
		vf.Assert(r.resCalls == 1, "response-modifier-exactly-once")
		vf.Assert(r.resRequest == r.req, "response-request-is-that-same-request")
		vf.Assert(r.resCtx == r.reqCtx, "same-context-for-both-modifiers")
		vf.Assert(!r.stale, "context-of-an-exchange-carries-nothing-from-another-exchange")
		vf.Assert(r.markSeen, "response-modifier-sees-what-the-request-modifier-stored-in-the-context")
		vf.Assert(!ids[r.reqCtx.ID()], "context-ids-unique-per-exchange")
		ids[r.reqCtx.ID()] = true
		if session == nil {
			session = r.reqCtx.Session()
		}
		vf.Assert(r.reqCtx.Session() == session, "session-shared-by-all-exchanges-of-the-connection")
	}
	vf.Assert(len(o.seen) == origins, "upstream-contact-only-when-expected")
	vf.Assert(zzliveContexts() == 0, "no-context-retrievable-after-the-exchange")
	vf.Assert(len(got) == 1+n, "one-response-per-exchange")
	for i := 0; i < len(got) && i <= n; i++ {
		switch {
		case i == 0:
			vf.Assert(got[i].status == 200, "connect-200")
		case behave[i] == zzbSkip:
			vf.Assert(got[i].status == 200, "skipped-round-trip-answers-200")
		default:
			vf.Assert(got[i].status == 201, "origin-response-delivered")
		}
		if behave[i] == zzbError {
			vf.Assert(len(got[i].header["Warning"]) >= 1, "modifier-error-surfaces-as-warning")
		}
	}
	vf.Reach("done")
}

var _ = io.EOF
