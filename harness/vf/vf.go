//go:build verif && !verifnative

// Package vf is the harness facade. In the symbolic engine every function
// here is an intrinsic (the bodies below are never executed).
package vf

func Bool(name string) bool            { panic("vf: engine intrinsic") }
func Byte(name string) byte            { panic("vf: engine intrinsic") }
func Uint8(name string) uint8          { panic("vf: engine intrinsic") }
func Int(name string) int              { panic("vf: engine intrinsic") }
func Int8(name string) int8            { panic("vf: engine intrinsic") }
func Int16(name string) int16          { panic("vf: engine intrinsic") }
func Int32(name string) int32          { panic("vf: engine intrinsic") }
func Int64(name string) int64          { panic("vf: engine intrinsic") }
func Uint(name string) uint            { panic("vf: engine intrinsic") }
func Uint16(name string) uint16        { panic("vf: engine intrinsic") }
func Uint32(name string) uint32        { panic("vf: engine intrinsic") }
func Uint64(name string) uint64        { panic("vf: engine intrinsic") }
func Bytes(name string, n int) []byte  { panic("vf: engine intrinsic") }
func String(name string, n int) string { panic("vf: engine intrinsic") }

// Choice returns a value in [0,k); every feasible value is explored.
func Choice(name string, k int) int { panic("vf: engine intrinsic") }

// Param returns a bound configured for the current tier.
func Param(name string) int { panic("vf: engine intrinsic") }

// Concrete forks the path once per feasible value of x.
func Concrete(x int) int { panic("vf: engine intrinsic") }

func Assume(c bool)               { panic("vf: engine intrinsic") }
func Assert(c bool, label string) { panic("vf: engine intrinsic") }
func Fail(label string)           { panic("vf: engine intrinsic") }
func Reach(label string)          { panic("vf: engine intrinsic") }

// Known declares the region (cond) of a listed known finding; assertions that
// fail only inside active regions are reported as KNOWN-FINDING.
func Known(id string, cond bool) { panic("vf: engine intrinsic") }
func KnownClear(id string)       { panic("vf: engine intrinsic") }

func Event(s string)      { panic("vf: engine intrinsic") }
func Assumption(s string) { panic("vf: engine intrinsic") }
func Symbolic() bool      { panic("vf: engine intrinsic") }
func Yield()              { panic("vf: engine intrinsic") }
func Quiesce() int        { panic("vf: engine intrinsic") }
func Goroutines() int     { panic("vf: engine intrinsic") }
func BlockedDesc() string { panic("vf: engine intrinsic") }
func WatchOn()            { panic("vf: engine intrinsic") }
func WatchOff()           { panic("vf: engine intrinsic") }
func Holds(mu any) int    { panic("vf: engine intrinsic") }
func Dump(x any)          { panic("vf: engine intrinsic") }

// RandReader replaces crypto/rand.Reader inside the engine. By default it
// yields a deterministic counter sequence; with RandSymbolic set it yields
// fresh symbolic bytes.
type RandReader struct{}

var (
	RandSymbolic bool
	randCtr      byte
)

func (*RandReader) Read(p []byte) (int, error) {
	for i := range p {
		if RandSymbolic {
			p[i] = Byte("rand")
		} else {
			randCtr++
			p[i] = randCtr
		}
	}
	return len(p), nil
}

func SymbolicTime() { panic("vf: engine intrinsic") }

// Enc / Dec give the harness access to the codec used for gzip, deflate,
// snappy-stream and snappy-block (a tagged framing model in the engine, the
// real codec natively).
func Enc(codec string, plain []byte) []byte        { panic("vf: engine intrinsic") }
func Dec(codec string, enc []byte) ([]byte, bool) { panic("vf: engine intrinsic") }

// TLSModel sets the outcome of TLS handshakes and the negotiated protocol in
// the engine's crypto/tls model (no effect natively).
func TLSModel(handshakeOK bool, negotiatedProtocol string) { panic("vf: engine intrinsic") }

// TLSDialTarget registers the connection that the next tls.Dial returns in the engine.
func TLSDialTarget(conn any) { panic("vf: engine intrinsic") }

// FixedSchedule(true) makes the scheduler resolve its choices deterministically
// (first runnable goroutine) until FixedSchedule(false).
func FixedSchedule(on bool) { panic("vf: engine intrinsic") }

// CAKey tells the engine's x509 model that key signs on behalf of cert.
func CAKey(cert any, key any) { panic("vf: engine intrinsic") }

// AdvanceClock moves the engine's concrete clock forward by the given number of seconds.
func AdvanceClock(seconds int64) { panic("vf: engine intrinsic") }

// FSFile registers a file in the engine's stub file system; FSOpened lists every path passed to os.Open.
func FSFile(path string, content []byte) { panic("vf: engine intrinsic") }
func FSOpened() []string                 { panic("vf: engine intrinsic") }

// FSRoot is the temporary directory of the native stub file system (empty in the engine).
var FSRoot string
