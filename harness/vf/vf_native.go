//go:build verif && verifnative

// Package vf, native build: inputs come from the replay file named by
// VERIF_REPLAY (a JSON object {"inputs": {name: value}, "params": {...}}).
package vf

import (
	"encoding/json"
	"fmt"
	"os"
	"runtime"
	"sync"
	"time"
)

type replayFile struct {
	Inputs map[string]uint64 `json:"inputs"`
	Params map[string]int    `json:"params"`
}

var (
	once    sync.Once
	rf      replayFile
	mu      sync.Mutex
	nameCnt = map[string]int{}
	Failed  []string
	Reached []string
)

func load() {
	once.Do(func() {
		p := os.Getenv("VERIF_REPLAY")
		if p == "" {
			return
		}
		b, err := os.ReadFile(p)
		if err != nil {
			panic("vf: cannot read replay file: " + err.Error())
		}
		if err := json.Unmarshal(b, &rf); err != nil {
			panic("vf: bad replay file: " + err.Error())
		}
	})
}

// Reset clears per-run state (call at the start of each replayed harness).
func Reset() {
	mu.Lock()
	defer mu.Unlock()
	nameCnt = map[string]int{}
	Failed = nil
	Reached = nil
}

func get(name string) uint64 {
	load()
	mu.Lock()
	defer mu.Unlock()
	n := nameCnt[name]
	nameCnt[name] = n + 1
	full := name
	if n > 0 {
		full = fmt.Sprintf("%s#%d", name, n)
	}
	return rf.Inputs[full]
}

func Bool(name string) bool     { return get(name)&1 == 1 }
func Byte(name string) byte     { return byte(get(name)) }
func Uint8(name string) uint8   { return uint8(get(name)) }
func Int(name string) int       { return int(get(name)) }
func Int8(name string) int8     { return int8(get(name)) }
func Int16(name string) int16   { return int16(get(name)) }
func Int32(name string) int32   { return int32(get(name)) }
func Int64(name string) int64   { return int64(get(name)) }
func Uint(name string) uint     { return uint(get(name)) }
func Uint16(name string) uint16 { return uint16(get(name)) }
func Uint32(name string) uint32 { return uint32(get(name)) }
func Uint64(name string) uint64 { return get(name) }

func Bytes(name string, n int) []byte {
	r := make([]byte, n)
	for j := range r {
		r[j] = byte(get(fmt.Sprintf("%s[%d]", name, j)))
	}
	return r
}

func String(name string, n int) string { return string(Bytes(name, n)) }

func Choice(name string, k int) int {
	if k <= 1 {
		return 0
	}
	return int(get(name))
}

func Param(name string) int {
	load()
	return rf.Params[name]
}

func Concrete(x int) int { return x }

type assumeFailed struct{}

// Assume: a replayed counterexample satisfies all assumptions; if not, the
// replay is reported as not reproducing.
func Assume(c bool) {
	if !c {
		mu.Lock()
		Failed = append(Failed, "ASSUME-VIOLATED")
		mu.Unlock()
		fmt.Println("VERIF-ASSUME-VIOLATED")
		runtime.Goexit()
	}
}

func Assert(c bool, label string) {
	if !c {
		Fail(label)
	}
}

func Fail(label string) {
	mu.Lock()
	Failed = append(Failed, label)
	mu.Unlock()
	fmt.Printf("VERIF-ASSERT-FAILED %s\n", label)
}

func Reach(label string) {
	mu.Lock()
	Reached = append(Reached, label)
	mu.Unlock()
}

func Known(id string, cond bool) {}
func KnownClear(id string)       {}
func Event(s string)             { fmt.Println("VERIF-EVENT", s) }
func Assumption(s string)        {}
func Symbolic() bool             { return false }
func Yield()                     { runtime.Gosched() }
func Goroutines() int            { return runtime.NumGoroutine() }
func BlockedDesc() string        { return "" }
func WatchOn()                   {}
func WatchOff()                  {}
func Holds(mu any) int           { return 2 }
func Dump(x any)                 { fmt.Printf("vf.Dump: %v\n", x) }

func SymbolicTime() {}

func TLSModel(handshakeOK bool, negotiatedProtocol string) {}

func TLSDialTarget(conn any) {}

func FixedSchedule(on bool) {}

func CAKey(cert any, key any) {}

func AdvanceClock(seconds int64) {}

// Quiesce, natively: wait until the other goroutines have had time to settle.
// Quiesce calls nest (a hook inside a handler calls it while the harness's main
// goroutine is already waiting): as in the engine, an outer call returns only
// after every call that started later has returned and the goroutines have had
// another settling period.
var (
	qmu      sync.Mutex
	qseq     int
	qactive  = map[int]bool{}
	qlastEnd time.Time
)

const settle = 30 * time.Millisecond

func Quiesce() int {
	qmu.Lock()
	qseq++
	me := qseq
	qactive[me] = true
	qmu.Unlock()
	for {
		time.Sleep(settle)
		qmu.Lock()
		later := false
		for s := range qactive {
			if s > me {
				later = true
			}
		}
		if !later && time.Since(qlastEnd) >= settle {
			delete(qactive, me)
			qlastEnd = time.Now()
			qmu.Unlock()
			return 0
		}
		qmu.Unlock()
	}
}
