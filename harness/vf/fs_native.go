//go:build verif && verifnative

package vf

import (
	"os"
	"path/filepath"
)

// Native replay: files are really created below FSRoot (a temporary directory);
// FSOpened is not available natively.
var FSRoot string

func FSFile(path string, content []byte) {
	if FSRoot == "" {
		d, err := os.MkdirTemp("", "verif-fs-")
		if err != nil {
			panic(err)
		}
		FSRoot = d
	}
	full := filepath.Join(FSRoot, path)
	os.MkdirAll(filepath.Dir(full), 0o755)
	if err := os.WriteFile(full, content, 0o644); err != nil {
		panic(err)
	}
}

func FSOpened() []string { return nil }
