//go:build verif && verifnative

package vf

import (
	"bytes"
	"compress/flate"
	"compress/gzip"
	"io/ioutil"

	"github.com/golang/snappy"
)

func Enc(codec string, plain []byte) []byte {
	var buf bytes.Buffer
	switch codec {
	case "gzip":
		w := gzip.NewWriter(&buf)
		w.Write(plain)
		w.Close()
	case "deflate":
		w, _ := flate.NewWriter(&buf, -1)
		w.Write(plain)
		w.Close()
	case "snappy-stream":
		w := snappy.NewBufferedWriter(&buf)
		w.Write(plain)
		w.Close()
	case "snappy-block":
		return snappy.Encode(nil, plain)
	default:
		panic("vf.Enc: unknown codec " + codec)
	}
	return buf.Bytes()
}

func Dec(codec string, enc []byte) ([]byte, bool) {
	var out []byte
	var err error
	switch codec {
	case "gzip":
		var r *gzip.Reader
		if r, err = gzip.NewReader(bytes.NewReader(enc)); err == nil {
			out, err = ioutil.ReadAll(r)
		}
	case "deflate":
		out, err = ioutil.ReadAll(flate.NewReader(bytes.NewReader(enc)))
	case "snappy-stream":
		out, err = ioutil.ReadAll(snappy.NewReader(bytes.NewReader(enc)))
	case "snappy-block":
		out, err = snappy.Decode(nil, enc)
	default:
		panic("vf.Dec: unknown codec " + codec)
	}
	if err != nil {
		return nil, false
	}
	if out == nil {
		out = []byte{}
	}
	return out, true
}
