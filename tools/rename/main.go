// Command rename prefixes every package-level identifier that the harness files declare inside the
// packages under test with "zz", so that a library change which introduces an identifier of the
// same name cannot collide with the harness. Entry points and model functions (Verif*/verif*) and
// the harness's own packages (vf, msg) keep their names.
package main

import (
	"encoding/json"
	"fmt"
	"go/ast"
	"go/parser"
	"go/token"
	"os"
	"path/filepath"
	"sort"
	"strings"
)

type spec struct {
	Dir          string            `json:"dir"`
	Files        []string          `json:"files"`
	ExtraOverlay map[string]string `json:"extra_overlay"`
}

func keep(name string) bool {
	return name == "_" || name == "init" || name == "main" || strings.HasPrefix(name, "Verif") || strings.HasPrefix(name, "verif") || strings.HasPrefix(name, "zz")
}

func main() {
	root := "/verif/harness"
	specs, _ := filepath.Glob(filepath.Join(root, "*", "spec.json"))
	type edit struct{ off, n int }
	edits := map[string]map[int]int{} // file -> offset -> length of identifier to prefix
	for _, sp := range specs {
		var s spec
		b, _ := os.ReadFile(sp)
		if json.Unmarshal(b, &s) != nil {
			continue
		}
		dir := filepath.Dir(sp)
		groups := map[string][]string{} // target package dir -> harness files
		for _, f := range s.Files {
			groups[s.Dir] = append(groups[s.Dir], filepath.Clean(filepath.Join(dir, f)))
		}
		for target, f := range s.ExtraOverlay {
			if strings.HasPrefix(target, "zzverif/") {
				continue // the harness's own packages
			}
			groups[filepath.Dir(target)] = append(groups[filepath.Dir(target)], filepath.Clean(filepath.Join(dir, f)))
		}
		for _, files := range groups {
			fset := token.NewFileSet()
			parsed := map[string]*ast.File{}
			for _, f := range files {
				af, err := parser.ParseFile(fset, f, nil, parser.ParseComments)
				if err != nil {
					fmt.Fprintln(os.Stderr, "parse:", err)
					os.Exit(1)
				}
				parsed[f] = af
			}
			// package-level names declared by the harness files of this group
			decl := map[string]bool{}
			for _, af := range parsed {
				for _, d := range af.Decls {
					switch d := d.(type) {
					case *ast.FuncDecl:
						if d.Recv == nil && !keep(d.Name.Name) {
							decl[d.Name.Name] = true
						}
					case *ast.GenDecl:
						for _, sp := range d.Specs {
							switch sp := sp.(type) {
							case *ast.TypeSpec:
								if !keep(sp.Name.Name) {
									decl[sp.Name.Name] = true
								}
							case *ast.ValueSpec:
								for _, n := range sp.Names {
									if !keep(n.Name) {
										decl[n.Name] = true
									}
								}
							}
						}
					}
				}
			}
			// every identifier that refers to package scope: the parser resolves locals (Obj != nil
			// with a local declaration) and leaves package-level references either resolved to a
			// top-level declaration of the same file or unresolved
			for f, af := range parsed {
				top := map[*ast.Object]bool{}
				for _, o := range af.Scope.Objects {
					top[o] = true
				}
				ast.Inspect(af, func(n ast.Node) bool {
					switch n := n.(type) {
					case *ast.SelectorExpr:
						ast.Inspect(n.X, func(m ast.Node) bool { return visit(m, decl, top, fset, f, edits) })
						return false // never the selected field / method / qualified name
					case *ast.KeyValueExpr:
						// struct literal keys are field names; composite literals of maps/arrays have
						// expression keys: only skip a bare identifier key that is not a declared name
						if id, ok := n.Key.(*ast.Ident); ok && id.Obj == nil && !decl[id.Name] {
							ast.Inspect(n.Value, func(m ast.Node) bool { return visit(m, decl, top, fset, f, edits) })
							return false
						}
					}
					return visit(n, decl, top, fset, f, edits)
				})
			}
		}
	}
	var files []string
	for f := range edits {
		files = append(files, f)
	}
	sort.Strings(files)
	for _, f := range files {
		b, _ := os.ReadFile(f)
		var offs []int
		for o := range edits[f] {
			offs = append(offs, o)
		}
		sort.Sort(sort.Reverse(sort.IntSlice(offs)))
		for _, o := range offs {
			b = append(b[:o], append([]byte("zz"), b[o:]...)...)
		}
		os.WriteFile(f, b, 0o644)
		fmt.Println(f, len(offs), "identifiers")
	}
}

func visit(n ast.Node, decl map[string]bool, top map[*ast.Object]bool, fset *token.FileSet, f string, edits map[string]map[int]int) bool {
	switch n := n.(type) {
	case *ast.SelectorExpr:
		ast.Inspect(n.X, func(m ast.Node) bool { return visit(m, decl, top, fset, f, edits) })
		return false
	case *ast.Ident:
		if !decl[n.Name] {
			return true
		}
		if n.Obj != nil && !top[n.Obj] {
			return true // a local of the same name
		}
		if edits[f] == nil {
			edits[f] = map[int]int{}
		}
		edits[f][fset.Position(n.Pos()).Offset] = len(n.Name)
	}
	return true
}
