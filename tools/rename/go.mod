module rename

go 1.23
