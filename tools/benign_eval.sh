#!/bin/bash
# usage: tools/benign_eval.sh <change-id> <property> <scratch-worktree>
# A property-PRESERVING change (refactoring, optimisation, unconstrained behaviour): confirms that
# it builds and passes the suite, stores it under /verif/seeded/benign/<change-id>/ and runs the
# property's quick check against the worktree. The expected outcome is exit 0.
set -u
sid="$1"; prop="$2"; wt="$3"
export GOFLAGS=-mod=mod GOPROXY=off GOSUMDB=off GOTOOLCHAIN=local
out=/verif/seeded/benign/$sid; mkdir -p "$out"
cd "$wt" || exit 2
git diff > "$out/patch.diff"
[ -f SEED_REPORT.md ] && cp SEED_REPORT.md "$out/SEED_REPORT.md"
echo "== build"; go build ./... && echo BUILD-OK
echo "== suite with change"
go test -vet=off -count=1 ./... > "$out/suite.log" 2>&1; echo "suite exit: $?"; grep -E "^(FAIL|--- FAIL|panic)" "$out/suite.log" | head -5
grep -E "^(ok|FAIL|---|panic|\?)" "$out/suite.log" > "$out/suite.log.tmp"; mv "$out/suite.log.tmp" "$out/suite.log"
echo "== check $prop quick against the worktree"
if [ "${BENIGN_IN_REPO:-0}" = 1 ]; then
  cd /repo && git apply "$out/patch.diff" && cd /verif && timeout 3000 ./check $prop quick -noevidence > "$out/check_quick.log" 2>&1; rc=$?
  git -C /repo checkout -- .
else
  cd /verif && VERIF_REPO="$wt" timeout 3000 ./check $prop quick -noevidence > "$out/check_quick.log" 2>&1; rc=$?
  echo "(run with VERIF_REPO=$wt)" >> "$out/check_quick.log"
fi
grep -E "VIOLATION|INCONCLUSIVE|OK property|BUILD-FAILED|label=" "$out/check_quick.log" | head -6 | cut -c1-250; echo "check exit: $rc"
echo "$rc" > "$out/check_quick.exit"
