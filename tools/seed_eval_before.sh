#!/bin/bash
# usage: tools/seed_eval_before.sh <seed-id> <property> <verif-checkout>
# Runs the property's quick check from an OLDER checkout of /verif against a stored seeded change
# (to record what the check as it stood before a strengthening would have said).
set -u
sid="$1"; prop="$2"; old="$3"
out=/verif/seeded/$sid
cd /repo && git apply "$out/patch.diff" || { echo "patch does not apply"; exit 2; }
cd "$old" && timeout 3000 ./check $prop quick -noevidence > "$out/check_quick_before.log" 2>&1; rc=$?
git -C /repo checkout -- .
echo "$rc" > "$out/check_quick_before.exit"
git -C "$old" log --oneline -1 | cut -c1-60 >> "$out/check_quick_before.exit"
grep -E "VIOLATION|INCONCLUSIVE|OK property" "$out/check_quick_before.log" | head -3; echo "before-exit: $rc"
