#!/usr/bin/env python3
"""Renders the seeded-change tables of DESIGN.md section 11 from /verif/seeded/*/meta.json
(replaces the text between the ROUND markers)."""
import json, glob, re, textwrap
metas = [json.load(open(f)) for f in sorted(glob.glob('/verif/seeded/*/meta.json'))]
def first(m):
    b = m['check_result'].get('quick_before_strengthening')
    if b:
        return b['verdict']
    n = m.get('note', '')
    if n.startswith('Missed'): return 'missed'
    if n.startswith('First evaluation'): return 'inconclusive'
    return 'caught'
def block(ms):
    out = []
    for m in ms:
        res = m['check_result']
        tier = 'quick' 
        r = res[tier]
        out.append(f"* `{m['seed']}` ({m['property']}) - {m['summary']}.")
        out.append(f"  Needs: {m['needs_to_manifest']}.")
        v = ', '.join('`' + x + '`' for x in r['violations'][:2]) or '-'
        out.append(f"  First run: **{first(m)}**; final ({tier}): **{r['verdict']}** by {v}.")
        if m.get('note'):
            out.append(f"  {m['note']}.")
    return '\n'.join(textwrap.fill(l.strip(), 100, initial_indent=('  ' if l.startswith('  ') else ''),
                                   subsequent_indent='  ', break_on_hyphens=False, break_long_words=False) for l in out)
r1 = [m for m in metas if m.get('round', 1) == 1]
r2 = [m for m in metas if m.get('round', 1) == 2]
r3 = [m for m in metas if m.get('round', 1) == 3]
r4 = [m for m in metas if m.get('round', 1) == 4]
r7 = [m for m in metas if m.get('round', 1) == 7]
r8 = [m for m in metas if m.get('round', 1) == 8]
p = '/verif/DESIGN.md'
s = open(p).read()
def put(s, tag, title, ms):
    body = f"<!-- {tag} -->\n### {title}\n\n" + (block(ms) if ms else '(none yet)') + f"\n<!-- /{tag} -->"
    if f"<!-- {tag} -->" in s:
        return re.sub(rf"<!-- {tag} -->.*?<!-- /{tag} -->", lambda _: body, s, flags=re.S)
    return s.replace(tag, body, 1)
s = put(s, 'ROUND1', '11.1 Round 1 (one change per property)', r1)
s = put(s, 'ROUND2', '11.2 Round 2 (a different clause of each property)', r2)
s = put(s, 'ROUND3', '11.3 Round 3 (subtle changes, a third clause or mechanism)', r3)
s = put(s, 'ROUND4', '11.4 Round 4 (blind: evaluated before anything was read or changed)', r4)
s = put(s, 'ROUND7', '11.7 Round 7 (blind, after the two property-preserving rounds)', r7)
s = put(s, 'ROUND8', '11.8 Round 8 (blind, ten properties, final session)', r8)
open(p, 'w').write(s)
c = {}
for m in metas:
    c[first(m)] = c.get(first(m), 0) + 1
print(len(metas), 'seeds; first run:', c)
