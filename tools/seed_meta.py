#!/usr/bin/env python3
"""usage: tools/seed_meta.py <seed-id> <property> '<what it needs to manifest>' '<summary of the change>' [note]
Writes /verif/seeded/<seed-id>/meta.json from the artefacts seed_eval.sh left there."""
import json, os, sys, re
sid, prop, needs, summary = sys.argv[1:5]
note = sys.argv[5] if len(sys.argv) > 5 else ""
d = f"/verif/seeded/{sid}"
res = {}
for tier in ("quick", "thorough"):
    ex = os.path.join(d, f"check_{tier}.exit")
    if os.path.exists(ex):
        rc = int(open(ex).read().strip())
        log = open(os.path.join(d, f"check_{tier}.log")).read()
        v = re.findall(r"entry=(\S+) kind=(\S+) label=(\S+)", log)
        res[tier] = {"exit": rc, "verdict": {0: "missed", 1: "caught", 2: "inconclusive"}.get(rc, "error"),
                     "violations": sorted({f"{e}:{l}" for e, k, l in v})}
bf = os.path.join(d, "check_quick_before.exit")
if os.path.exists(bf):
    lines = open(bf).read().split("\n")
    rc = int(lines[0].strip())
    log = open(os.path.join(d, "check_quick_before.log")).read()
    v = re.findall(r"entry=(\S+) kind=(\S+) label=(\S+)", log)
    res["quick_before_strengthening"] = {"exit": rc, "verdict": {0: "missed", 1: "caught", 2: "inconclusive"}.get(rc, "error"),
                                         "verif_commit": lines[1].strip() if len(lines) > 1 else "",
                                         "violations": sorted({f"{e}:{l}" for e, k, l in v})}
demo = []
for root, _, fs in os.walk(os.path.join(d, "demo")):
    for f in fs:
        demo.append(os.path.relpath(os.path.join(root, f), d))
inwt = any("(run with VERIF_REPO=" in open(os.path.join(d, f)).read() for f in os.listdir(d) if f.startswith("check_") and f.endswith(".log"))
meta = {
    "round": int(os.environ.get("SEED_ROUND", "1")),
    "seed": sid, "property": prop, "summary": summary, "needs_to_manifest": needs,
    "patch": "patch.diff", "demonstration": sorted(demo),
    "confirmed": ["go build ./... with the change", "demonstration fails with the change, passes without it",
                  "go test ./... (existing suite, unedited) passes with the change",
                  (f"VERIF_REPO=<scratch worktree holding /repo's HEAD plus patch.diff> ./check {prop} <tier> -noevidence (/repo itself was being read by a thorough sweep)"
                   if inwt else f"git -C /repo apply patch.diff; ./check {prop} <tier> -noevidence; git -C /repo checkout -- .")],
    "check_result": res,
}
if note:
    meta["note"] = note
json.dump(meta, open(os.path.join(d, "meta.json"), "w"), indent=1)
print(json.dumps(meta["check_result"]))
