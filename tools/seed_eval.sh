#!/bin/bash
# usage: tools/seed_eval.sh <seed-id> <property> <scratch-worktree> [tier]
# Confirms a seeded change (builds, suite passes, demo fails with / passes without),
# stores it under /verif/seeded/<seed-id>/, then runs the property's check against it in /repo.
set -u
sid="$1"; prop="$2"; wt="$3"; tier="${4:-quick}"
export GOFLAGS=-mod=mod GOPROXY=off GOSUMDB=off GOTOOLCHAIN=local
out=/verif/seeded/$sid; mkdir -p "$out"
cd "$wt" || exit 2
git diff > "$out/patch.diff"
demo=$(git status --porcelain | grep '^??' | awk '{print $2}' | grep -v SEED_REPORT | head -5 | tr '\n' ' ')
for f in $demo; do mkdir -p "$out/demo/$(dirname $f)"; cp "$f" "$out/demo/$f"; done
[ -f SEED_REPORT.md ] && cp SEED_REPORT.md "$out/SEED_REPORT.md"
echo "== build"; go build ./... && echo BUILD-OK
demopkgs=$(for f in $demo; do echo ./$(dirname $f); done | sort -u | tr '\n' ' ')
echo "== demo with change ($demopkgs)"; go test -vet=off -count=1 -run 'Seed|seed|Demo' $demopkgs 2>&1 | tail -4
git apply -R "$out/patch.diff"   # (git stash is shared between worktrees: never use it here)
echo "== demo without change"; go test -vet=off -count=1 -run 'Seed|seed|Demo' $demopkgs 2>&1 | tail -3
git apply "$out/patch.diff"
echo "== suite with change (demo files moved aside)"
for f in $demo; do mv "$f" "$f.aside"; done
go test -vet=off -count=1 ./... > "$out/suite.log" 2>&1; echo "suite exit: $?"; grep -E "^(FAIL|--- FAIL|panic)" "$out/suite.log" | head -10
for f in $demo; do mv "$f.aside" "$f"; done
echo "== check $prop $tier against the change in /repo"
if [ "${SEED_EVAL_IN_WORKTREE:-0}" = 1 ]; then
  # /repo is busy (a sweep is reading it): run the same check against the scratch worktree, which
  # holds the same tree as /repo plus the change (VERIF_REPO redirects the engine and the replay)
  cd /verif && VERIF_REPO="$wt" timeout 3000 ./check $prop $tier -noevidence > "$out/check_$tier.log" 2>&1; rc=$?
  echo "(run with VERIF_REPO=$wt)" >> "$out/check_$tier.log"
else
cd /repo && git apply "$out/patch.diff" && cd /verif && timeout 3000 ./check $prop $tier -noevidence > "$out/check_$tier.log" 2>&1; rc=$?
fi
grep -v "KNOWN-FINDING\|^    at\|inputs=" "$out/check_$tier.log" | tail -12 | cut -c1-300; echo "check exit: $rc"
git -C /repo checkout -- . ; git -C /repo status --short
echo "$rc" > "$out/check_$tier.exit"
