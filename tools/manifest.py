#!/usr/bin/env python3
"""Regenerates /verif/MANIFEST.json from the table below (run after editing)."""
import json, os
HERE = os.path.dirname(os.path.dirname(os.path.abspath(__file__)))
ALL = ["C%02d" % i for i in range(1, 21)]

TECH = "bounded symbolic execution of the real code's go/ssa with SMT (z3 QF_BV) path conditions; counterexamples replayed natively"

# property -> dict(text, note, design_ref)
CLAIMED = {
 "C01": dict(
  text="Bounded symbolic execution of the real per-connection loop (Proxy.handleLoop, handle, readRequest, roundTrip, isCloseable, context linking) from SSA together with net/http's own ReadRequest, Response.Write, ReadResponse and body framing code, which is executed, not modelled. A scripted client connection carries 1..N requests (pipelined or not) with symbolic path/query characters, header values and body bytes; the origin is a round tripper that answers from scripted wire bytes in each framing. Asserted: the origin sees each request exactly once until one side asks to close, with the same method, path and query, header value and body bytes; the client parses exactly one complete response per request, in order, with the origin's status, header value and body bytes; the connection is closed when the loop ends and no later request is served after a close.",
  note="Bounds: one request with full variety (GET/POST/HEAD, origin/absolute form, Content-Length or chunked body of 0..1 symbolic bytes, Connection: close or not; origin 200/404/204 framed by Content-Length, chunking or connection close), and sequences of 2 (quick) / 2..3 (thorough) requests with reduced variety. Symbolic text bytes are restricted to lower-case alphanumerics; multi-megabyte bodies and real sockets are outside the bound. Trusted: go/ssa, symgo (scheduler included), z3.",
  ref="DESIGN.md section 6, C01"),
 "C19": dict(
  text="Bounded symbolic execution of the real marbl code from SSA. (a) Reader: ReadFrame on a fully symbolic input buffer cut at every length: z3 shows, for every byte value within the bound, no Go panic, frame XOR error, error iff the declared lengths do not fit, decoded fields equal to an independent parse (this found the 32-bit length wrap). (b) Stream: LogRequest + bodyLogger with symbolic id and header value bytes and scripted body reads; every Write to the sink is exactly one whole frame, frames decode (real Reader and independent parser) to the message's pseudo-headers and headers, data frames have contiguous indices from 0, concatenate to what the consumer read and end with a terminal frame iff the body reached EOF. (c) Concurrency: two logging goroutines and the stream's writer goroutine under the engine's cooperative scheduler, every schedule within the preemption bound: frames are never torn or interleaved within a frame and per-message order is kept.",
  note="Bounds: reader input = 19+k bytes, k=3 quick / 6 thorough, 32-bit sum of declared lengths <= k (wrapping sums included); stream: 1..2 (quick) / 1..3 (thorough) scripted reads of 0..2 bytes; concurrency: 2 messages x 3 frames, preemption bound 1 (quick, 60k schedules) / 2 (thorough, 1.6M schedules). Trusted: go/ssa, the symgo interpreter and scheduler, z3; bufio/io/encoding/binary are executed from SSA.",
  ref="DESIGN.md section 6, C19"),
 "C20": dict(
  text="Bounded symbolic execution of the real body.Modifier.ModifyResponse (strings.Split/TrimSpace, strconv.Atoi, multipart.Writer all executed from SSA) on symbolic content and symbolic Range headers; z3 shows for every header within the bound: no panic, body readable with Content-Length equal to its length, and the outcome is full content, a 416 only when some range is malformed/unsatisfiable, or a 206 whose bytes, Content-Range and multipart framing equal an RFC 7233 reference computed in the harness.",
  note="Bounds: content length in {0,1,2,3,5}; Range = 'bytes=' + <=4 (quick) / <=6 (thorough) free characters over [0-9,- ] or the structured family bytes=a-[b][,c-[d]] with numbers of <=2 / <=4 symbolic digits. The static-file modifier half of C20 (file ranges, path containment) is not covered yet. Trusted: go/ssa, symgo, z3.",
  ref="DESIGN.md section 6, C20"),
 "C17": dict(
  text="One inductive step, decided by bounded symbolic execution of the real RecordRequest/RecordResponse/Export/ExportAndReset/Reset from SSA: from an arbitrary log state satisfying the representation invariant (n retained entries, symbolic ids constrained only to be distinct, symbolic completion bits) and an operation with a symbolic id argument (z3 decides whether it aliases an existing id), the invariant holds again and the result equals a slice model. Because the step holds from every valid state, histories of any length follow for logs of up to n simultaneously retained entries; a second harness runs all operation sequences of bounded length from the empty log end to end. A lockset monitor in the engine requires l.mu to be held at every access to entries, tail, Entry.next and Entry.Response inside the five operations, which is the argument for the concurrent clause.",
  note="Bounds: n<=4 entries quick / 6 thorough, ids of 2 symbolic bytes; sequences of 4 quick / 6 thorough operations over 3 ids. har.NewRequest/NewResponse are summarised (C16's subject). Concurrency is covered by the lock-discipline argument (every access under the one mutex), not by enumerating interleavings. Trusted: go/ssa, symgo, z3.",
  ref="DESIGN.md section 6, C17"),
 "C09": dict(
  text="Bounded symbolic execution of the real relay flow-control code (updateInitialWindowSize, updateWindow, data, emitEligibleFrames, sendWindowUpdates, queued frames, with the real x/net http2.Framer on both sides, all from SSA) over symbolic histories: SETTINGS initial window values and WINDOW_UPDATE increments are symbolic 31-bit integers, so z3 decides every relation between window and frame size. A ledger oracle in the harness asserts: bytes delivered never exceed the receiver's credit per stream and connection, credit returned to the sender equals the flow-controlled length (payload+padding+pad octet) of every accepted DATA frame, no frame exceeds the symbolic SETTINGS_MAX_FRAME_SIZE, and no queue head that fits both windows is left stranded.",
  note="Bounds: histories of 3 (quick) / 4 (thorough) events over 2 streams, DATA payload 0..3 bytes, pad length 0 or 2; max-frame scenario: one 16386-byte payload, m symbolic in [16384, 2^24). Sequential schedule (the harness drains the output queue after each frame; the reader/writer goroutines are C10's subject). Lenient reading: the relay is not required to split a frame to fit a smaller window. Trusted: go/ssa, symgo, z3; x/net http2 framing is executed, not stubbed.",
  ref="DESIGN.md section 6, C09"),
 "C08": dict(
  text="Bounded symbolic execution of the real relay (processFrame, header/data/priority/rstStream/pushPromise, enqueue/emit, continuation reassembly, queued frame senders, forwardPreface) together with the real x/net http2.Framer and hpack encoder/decoder, all from SSA: frame scripts are written by a harness-side Framer (so only RFC-valid frames arise), relayed, and parsed on the far side by another Framer and an HPACK decoder fed in wire order; per stream the received sequence must equal the sent one (decoded field lists, DATA bytes, END_STREAM position, RST codes, priorities, promised ids) and connection frames must have identical contents. DATA bytes, priority fields, error codes, PING/GOAWAY payloads and promised ids are symbolic (decided by z3); fragmentation points, padding, END_STREAM placement, direction and the receiver's window schedule are enumerated.",
  note="Bounds: one stream lifecycle (header block whole/2/3 frames x priority x padding x END_STREAM, <=2 DATA frames of 0 or 2 symbolic bytes, trailers/empty END_STREAM/RST), a two-stream scenario with DATA blocked by a zero stream window, single connection-level frames in both directions, preface cut at every point. Sequential schedule; header contents from a small concrete set (HPACK itself is x/net's). Known findings listed in known_findings.txt: HPACK encode-at-enqueue reordering, continued PUSH_PROMISE rejected by the pinned x/net Framer. Trusted: go/ssa, symgo, z3.",
  ref="DESIGN.md section 6, C08"),
 "C11": dict(
  text="Bounded symbolic execution of the real gRPC adapter/emitter (AsStreamProcessorFactory, adapter.Header/Data, emitter.Message, gunzip/deflate, with bytes.Buffer and encoding/binary from SSA) on message sequences with symbolic payload bytes and compressed flags, under every grpc-encoding, for every set of cut points of the length-prefixed byte stream into DATA frames (exhaustive within the bound), END_STREAM on the last data frame or a separate empty one, both directions. An independent byte-level parser in the harness checks that the recording pass-through processor saw exactly the decompressed messages with end-of-stream once and last, and that the destination sink received the same messages in the same wire format and encoding with END_STREAM exactly once after the last message; non-gRPC streams must pass byte for byte.",
  note="Bounds: <=2 messages of <=1 byte in <=3 frames (quick), <=3 messages of <=2 bytes in <=3 frames (thorough). gzip/deflate/snappy are an injective tagged-framing codec model in the engine (stream and block snappy are different codecs); native replay of counterexamples uses the real codecs. Hook: overlay-only constructor h2.VerifNewProcessors. Trusted: go/ssa, symgo, z3.",
  ref="DESIGN.md section 6, C11"),
 "C14": dict(
  text="Bounded symbolic execution of the real spec stack (httpspec.NewStack, removeHopByHopHeaders, ViaModifier, forwarded and bad-framing modifiers, fifo.Group; strings/net/textproto canonicalisation from SSA) on messages whose Connection list elements are fully symbolic strings: z3 chooses letter case, surrounding whitespace and non-token bytes, and the oracle is the direct statement of the property (a header survives, untouched, iff it is not in the fixed hop-by-hop list and not named case-insensitively by any Connection element). Via chains over several header lines with any entry naming this instance must be detected (error, round trip skipped, 400) or extended by exactly one entry after all existing ones; X-Forwarded-* append/preserve; conflicting Content-Length (symbolic digits) or a Transfer-Encoding not ending in chunked must be flagged by the stack.",
  note="Bounds: one fully symbolic Connection element of 2..3 (quick) / 2..4 (thorough) bytes combined with concrete partners over 1..2 header lines (thorough: two symbolic elements); Via 0..2 lines x 1..2 entries from 3 entry shapes; X-Forwarded-For 0..2 lines; Content-Length 0..2 lines of 1..2 symbolic digits; 4 Transfer-Encoding shapes. regexp [\\t ]+ Split is an engine model. Trusted: go/ssa, symgo, z3.",
  ref="DESIGN.md section 6, C14"),
 "C12": dict(
  text="Bounded symbolic execution of the real parse.FromJSON/NewResult, fifo and priority groupFromJSON and Modify*, filter.Filter, header.Filter/Matcher/Append, martianhttp servePOST/ModifyRequest/ModifyResponse and MultiError from SSA over generated configuration trees. The JSON text of each tree is fed to the real registry; priorities are symbolic digits and every filter condition reads a symbolic header byte, so z3 decides every ordering and branch. The oracle is a depth-first reference evaluator written from the property statement (FIFO order, descending priority with later-listed first among equals, condition/else, scope projection at every level, first-error stop vs aggregation with every error once); compared are the append-only trace written by the leaves and the number of reported errors. A second harness corrupts a configuration at every depth (unknown modifier, bad scope, malformed JSON, two keys, wrong value type) and checks whole-configuration rejection, and that a rejected POST keeps the previous configuration while an accepted one replaces it.",
  note="Bounds: trees of depth 1, fan-out 2, 5 scope variants per node (quick); depth 2, fan-out 2, 3 scope variants below the root (thorough); node types fifo.Group, priority.Group, header.Filter, header.Append. Other registered filters (url, querystring, method, cookie) are not instantiated. encoding/json is an engine model (order-preserving parser, decode by tag). Trusted: go/ssa, symgo, z3.",
  ref="DESIGN.md section 6, C12"),
 "C13": dict(
  text="Bounded symbolic execution of the real verifier tree walks (header and status verifiers, filter.Filter and fifo.Group Verify*/Reset*, martianhttp.Modifier, MultiError flattening) from SSA over histories of traffic, verification queries and resets on six verifier-bearing configuration shapes. Every exchange carries symbolic header bytes, a symbolic status and a symbolic API-request flag, so z3 decides which expectations are met and which branch is taken; the oracle is a counter model (one error per unmet evaluation since the last reset, flattened, none lost or duplicated, API requests never counted, reset clears both branches). The data-race clause is decided by the engine's lock-discipline monitor: MultiError.errs must be accessed under MultiError.mu and verifier error fields written only under a write lock.",
  note="Bounds: histories of 3 (quick) / 4 (thorough) operations; shapes: verifier under group, filter true branch, filter else branch, nested groups + status verifier, verifiers in both branches, filter inside group. Queries go through martianhttp.Modifier, not through the HTTP verify handlers' JSON encoding. Interleavings are not enumerated (lockset argument). Trusted: go/ssa, symgo, z3; encoding/json decoding is an engine model.",
  ref="DESIGN.md section 6, C13"),
 "C18": dict(
  text="Bounded symbolic execution of the real shaped write path (Conn.Write, WriteDefaultBuckets, GetNextActionFromByte/Index, GetCurrentThrottle, CheckExistenceAndValidity, Bucket.FillThrottleLocked/SetCapacity, parseShapes, getActionsFromThrottles, Handler.ServeHTTP, Listener.GetTrafficShapedConn, Conn.Close) from SSA. The halt, close and throttle byte offsets and the range start are symbolic 64-bit integers, the response is written as head + symbolic body in every split into up to three writes: z3 decides every relation between offsets, range start and write boundaries. Asserted: delivered bytes are a prefix of what was written and Write returns their count; a close action at offset k delivers head + exactly k - rangeStart body bytes and then ErrForceClose; a halt sleeps at least its duration; binary searches agree with a linear scan; JSON configurations with symbolic throttle bounds are accepted iff valid, rejected ones leave shapes/defaults/capacities/modification time untouched, an earlier connection keeps its view; closing a connection closes the buckets created for it.",
  note="Bounds: offsets in [0,4] (quick) / [0,6] (thorough), body 3 / 4 bytes, head 2 bytes, up to two (quick) or three (thorough) of halt/close/throttle at once, one shape. The bucket drain goroutine is replaced by a model (drain when a writer would spin; thorough: also at any earlier check); tickers never fire; time.Sleep is recorded, wall-clock rates are outside the claim. The URL-match in proxy.go that selects the shape is not part of this check. Trusted: go/ssa, symgo, z3.",
  ref="DESIGN.md section 6, C18"),
 "C15": dict(
  text="Bounded symbolic execution of the real messageview snapshot/readers, har.Logger.ModifyRequest/Response (incl. postData, NewResponse), marbl.Modifier/Stream.LogRequest/bodyLogger (with the stream goroutine under the engine scheduler) and martianlog.Logger from SSA, with net/http's own header/chunk code executed for real. Body bytes are symbolic; framing, content coding, content type, trailers, logger options and the skip-logging mark are enumerated. Asserted after every logger/snapshot: header and trailer maps, ContentLength, TransferEncoding, Close unchanged and the body yields the original bytes then EOF (marbl: the wrapper returns the same (n, err) sequence and bytes as the wrapped body for scripted reads); the snapshot equals a reference serialisation written from the message fields and its three readers partition it; decoded body = content; skip-logging produces no HAR entry, no marbl frame, no log line; loggers return no error.",
  note="Bounds: bodies of 0..1 (quick) / 0..3 (thorough) symbolic bytes; framings Content-Length, chunked (with/without declared trailers), unknown length; codings identity/gzip/deflate/unknown; marbl: up to 2 (quick) / 3 (thorough) scripted reads. gzip/deflate are the engine's tagged codec model (real codecs in native replay). Known finding: missing empty line after declared trailers in snapshots (pinned by the repo's tests). Trusted: go/ssa, symgo, z3.",
  ref="DESIGN.md section 6, C15"),
 "C16": dict(
  text="Bounded symbolic execution of the real har.NewRequest/NewResponse/postData/headers/cookies, proxyutil.Header.Map/All, PostData and Content (Un)MarshalJSON and the logging option predicates from SSA (net/url, mime, cookie and chunk code executed for real). Request bodies are symbolic bytes or a form key=value with symbolic characters; response bodies are symbolic under three framings and identity/gzip/deflate coding. Asserted: method, URL, version, header list incl. Host / Content-Length / Transfer-Encoding / multi-valued headers, query parameters, cookies, redirect URL; post data = the body as the origin receives it (un-chunked, not content-decoded), parsed into parameters for form bodies; response content = the fully decoded body with its true size; capture follows the option predicates; PostData and Content survive Marshal->Unmarshal exactly over an alphabet of quotes, control bytes, valid multi-byte and invalid UTF-8 sequences.",
  note="Bounds: bodies of 0..2 (quick) / 0..4 (thorough) symbolic bytes; form value 0..2 symbolic characters; JSON strings of <=2 (quick) / <=3 (thorough) bytes over a 13-byte alphabet (enumerated, not symbolic: json.Marshal runs the real encoder on natively rebuilt concrete values, json.Unmarshal is the engine's decoder model). Multipart bodies are not covered. Trusted: go/ssa, symgo, z3.",
  ref="DESIGN.md section 6, C16"),
}

NOT_YET = "check not built yet in this round; planned with the same technique (DESIGN.md section 6)"
NA = {}

def main():
    checks = []
    for pid in ALL:
        if pid not in CLAIMED:
            continue
        c = CLAIMED[pid]
        checks.append({
            "property_id": pid,
            "quick_cmd": "./check %s quick" % pid,
            "thorough_cmd": "./check %s thorough" % pid,
            "evidence_file": "/verif/evidence/%s.json" % pid,
            "replay_cmd_template": "./check %s --replay {path}" % pid,
            "engine": "symgo",
            "level_claimed": {"category": c.get("category", "model_checking"), "text": c["text"], "design_ref": c["ref"]},
            "level_note": c["note"],
            "technique": c.get("technique", TECH),
        })
    na = [{"property_id": p, "reason": NA.get(p, NOT_YET)} for p in ALL if p not in CLAIMED]
    m = {
        "version": 1,
        "setup_cmd": "cd /verif/engine && GOFLAGS=-mod=mod GOPROXY=off GOSUMDB=off GOTOOLCHAIN=local CGO_ENABLED=0 go build -o ../bin/symgo ./cmd/symgo && cd /verif && ./check T00 quick -noevidence",
        "hooks": {
            "guard": "verif",
            "enable": "harness files carry //go:build verif and are injected by overlay (go/packages Overlay for the engine, go test -overlay for native replay); no file under /repo is modified",
            "baseline_off_cmd": "cd /repo && go build ./... && go test -vet=off -count=1 -timeout 25m ./...",
            "source_commits": [],
            "add_only": True,
        },
        "engines": [{"name": "symgo", "path": "/verif/engine", "serves_properties": sorted(CLAIMED), "kind_free_text": "symbolic executor for go/ssa (fork of x/tools go/ssa/interp) with z3 back end, cooperative scheduler, native replay"}],
        "checks": checks,
        "not_applicable": na,
        "notes": "All checks: exit 0 held / 1 VIOLATION (natively replayed) / 2 machinery could not decide. known_findings.txt lists known and fixed findings.",
    }
    with open(os.path.join(HERE, "MANIFEST.json"), "w") as f:
        json.dump(m, f, indent=1)
        f.write("\n")

if __name__ == "__main__":
    main()
