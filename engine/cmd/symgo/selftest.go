package main

import "fmt"

func cmdSelftest(args []string) int {
	fmt.Println("selftest: see ./check selftest")
	return 0
}
