// Command symgo decides martian's properties by bounded symbolic execution of
// the real code's SSA. See /verif/DESIGN.md.
package main

import (
	rdebug "runtime/debug"
	"syscall"
	"os/signal"
	"runtime"
	"bufio"
	"bytes"
	"encoding/json"
	"flag"
	"fmt"
	"os"
	"os/exec"
	"path/filepath"
	"runtime/pprof"
	"sort"
	"strings"
	"time"

	"symgo/interp"
)

// repoDir is the tree under verification. VERIF_REPO redirects a run to another checkout of the
// same repository (used to run long sweeps on a stable copy while /repo is being patched for
// seeded-change evaluations); the registered commands never set it.
var repoDir = func() string {
	if d := os.Getenv("VERIF_REPO"); d != "" {
		return d
	}
	return "/repo"
}()

var verifDir = func() string {
	if d := os.Getenv("VERIF_DIR"); d != "" {
		return d
	}
	exe, err := os.Executable()
	if err == nil {
		d := filepath.Dir(filepath.Dir(exe))
		if _, err := os.Stat(filepath.Join(d, "harness")); err == nil {
			return d
		}
	}
	return "/verif"
}()

type TierCfg struct {
	Params        map[string]int `json:"params"`
	MaxSteps      int            `json:"max_steps"`
	MaxDecisions  int            `json:"max_decisions"`
	MaxPaths      int            `json:"max_paths"`
	ConcretizeCap int            `json:"concretize_cap"`
	Preempt       *int           `json:"preempt"`
	SolverTimeout int            `json:"solver_timeout_ms"`
	Skip          bool           `json:"skip"`
	FixedSchedule bool           `json:"fixed_schedule"`
}

type Entry struct {
	Name    string             `json:"name"`
	Doc     string             `json:"doc"`
	Tiers   map[string]TierCfg `json:"tiers"`
	Reach   []string           `json:"reach"`   // labels that must be hit on at least one path
	Witness string             `json:"witness"` // label whose reachability is checked by the witness twin
	Models  map[string]string  `json:"models"`
	Watch   map[string]string  `json:"watch"`
	Timeout int                `json:"replay_timeout_s"`
	Replay  string             `json:"replay"`  // "engine": confirm counterexamples by re-executing their decision trace in the engine
	Package string             `json:"package"` // overrides the spec's package for this entry
	Dir     string             `json:"dir"`
}

type Spec struct {
	Property     string            `json:"property"`
	Package      string            `json:"package"`
	Dir          string            `json:"dir"`
	Files        []string          `json:"files"`
	ExtraOverlay map[string]string `json:"extra_overlay"` // repo-relative target -> file in harness dir
	Patterns     []string          `json:"patterns"`
	Entries      []Entry           `json:"entries"`
	Assumptions  []string          `json:"assumptions"`
	Rule         string            `json:"rule"`
	InitExtra    []string          `json:"init_extra"`
	InitSkip     []string          `json:"init_skip"`
	Models       map[string]string `json:"models"`
	Level        string            `json:"level"`
}

func loadSpec(id string) (*Spec, string, error) {
	dir := filepath.Join(verifDir, "harness", id)
	b, err := os.ReadFile(filepath.Join(dir, "spec.json"))
	if err != nil {
		return nil, dir, err
	}
	var s Spec
	dec := json.NewDecoder(bytes.NewReader(b))
	dec.DisallowUnknownFields()
	if err := dec.Decode(&s); err != nil {
		return nil, dir, fmt.Errorf("spec.json: %v", err)
	}
	return &s, dir, nil
}

// overlayFiles returns virtual path -> real path.
func overlayFiles(s *Spec, dir string, native bool) (map[string]string, error) {
	ov := map[string]string{}
	vf := "vf.go"
	if native {
		vf = "vf_native.go"
	}
	ov[filepath.Join(repoDir, "zzverif/vf", vf)] = filepath.Join(verifDir, "harness/vf", vf)
	if native {
		ov[filepath.Join(repoDir, "zzverif/vf", "codec_native.go")] = filepath.Join(verifDir, "harness/vf", "codec_native.go")
		ov[filepath.Join(repoDir, "zzverif/vf", "fs_native.go")] = filepath.Join(verifDir, "harness/vf", "fs_native.go")
	}
	for _, f := range s.Files {
		ov[filepath.Join(repoDir, s.Dir, "zz_verif_"+filepath.Base(f))] = filepath.Join(dir, f)
	}
	for target, f := range s.ExtraOverlay {
		ov[filepath.Join(repoDir, target)] = filepath.Join(dir, f)
	}
	return ov, nil
}

func readOverlay(m map[string]string) (map[string][]byte, error) {
	r := map[string][]byte{}
	for v, real := range m {
		b, err := os.ReadFile(real)
		if err != nil {
			return nil, err
		}
		r[v] = b
	}
	return r, nil
}

type knownFinding struct {
	Property string
	ID       string
	Text     string
}

func loadKnown() ([]knownFinding, error) {
	f, err := os.Open(filepath.Join(verifDir, "known_findings.txt"))
	if err != nil {
		if os.IsNotExist(err) {
			return nil, nil
		}
		return nil, err
	}
	defer f.Close()
	var r []knownFinding
	sc := bufio.NewScanner(f)
	for sc.Scan() {
		line := strings.TrimSpace(sc.Text())
		if !strings.HasPrefix(line, "known:") {
			continue
		}
		kf := knownFinding{Text: strings.TrimSpace(strings.TrimPrefix(line, "known:"))}
		for _, w := range strings.Fields(line) {
			if strings.HasPrefix(w, "property=") {
				kf.Property = strings.TrimPrefix(w, "property=")
			}
			if strings.HasPrefix(w, "id=") {
				kf.ID = strings.TrimPrefix(w, "id=")
			}
		}
		if kf.ID != "" {
			r = append(r, kf)
		}
	}
	return r, sc.Err()
}

type EntryResult struct {
	Name        string              `json:"name"`
	Bounds      map[string]int      `json:"bounds"`
	Params      map[string]int      `json:"params"`
	Paths       int                 `json:"paths"`
	PathsOK     int                 `json:"paths_completed"`
	Infeasible  int                 `json:"paths_infeasible"`
	Truncated   int                 `json:"paths_truncated"`
	TruncWhy    []string            `json:"truncated_reasons,omitempty"`
	EngineErr   int                 `json:"engine_errors"`
	EngineMsgs  []string            `json:"engine_messages,omitempty"`
	Inconcl     int                 `json:"inconclusive"`
	Nontrivial  int                 `json:"paths_reaching_assertions"`
	Obligations int                 `json:"obligations"`
	Discharged  int                 `json:"discharged"`
	Queries     int                 `json:"solver_queries"`
	SolverTime  float64             `json:"solver_time_s"`
	Decisions   int                 `json:"decisions"`
	SchedPoints int                 `json:"scheduling_points"`
	Reach       map[string]int      `json:"reach_labels"`
	Witness     string              `json:"witness_twin,omitempty"`
	KnownHits   []string            `json:"known_finding_hits,omitempty"`
	Violations  []ViolationOut      `json:"violations,omitempty"`
	Samples     []map[string]uint64 `json:"samples,omitempty"`
	WallS       float64             `json:"wall_s"`
	PathCapHit  bool                `json:"path_cap_hit,omitempty"`
}

type ViolationOut struct {
	Kind     string            `json:"kind"`
	Label    string            `json:"label"`
	Msg      string            `json:"msg,omitempty"`
	Inputs   map[string]uint64 `json:"inputs"`
	Stack    []string          `json:"stack,omitempty"`
	Events   []string          `json:"events,omitempty"`
	Replay   string            `json:"replay,omitempty"`
	Replayed string            `json:"replayed,omitempty"`
}

func boundsFor(t TierCfg) interp.Bounds {
	b := interp.DefaultBounds()
	if t.MaxSteps > 0 {
		b.MaxSteps = t.MaxSteps
	}
	if t.MaxDecisions > 0 {
		b.MaxDecisions = t.MaxDecisions
	}
	if t.MaxPaths > 0 {
		b.MaxPaths = t.MaxPaths
	}
	if t.ConcretizeCap > 0 {
		b.ConcretizeCap = t.ConcretizeCap
	}
	if t.Preempt != nil {
		b.Preempt = *t.Preempt
	}
	if t.SolverTimeout > 0 {
		b.SolverTimeout = t.SolverTimeout
	}
	b.FixedSchedule = t.FixedSchedule
	return b
}

func main() {
	if len(os.Args) < 2 {
		fmt.Fprintln(os.Stderr, "usage: symgo check|replay|selftest ...")
		os.Exit(2)
	}
	switch os.Args[1] {
	case "check":
		os.Exit(cmdCheck(os.Args[2:]))
	case "replay":
		os.Exit(cmdReplay(os.Args[2:]))
	case "selftest":
		os.Exit(cmdSelftest(os.Args[2:]))
	default:
		fmt.Fprintln(os.Stderr, "unknown command", os.Args[1])
		os.Exit(2)
	}
}

func cmdCheck(args []string) int {
	fs := flag.NewFlagSet("check", flag.ExitOnError)
	id := fs.String("id", "", "property id")
	tier := fs.String("tier", "quick", "quick|thorough")
	only := fs.String("entry", "", "run only this entry")
	workers := fs.Int("workers", 16, "parallel workers")
	solver := fs.String("solver", "z3", "z3|z3-new|cvc5")
	verbose := fs.Bool("v", false, "verbose")
	trace := fs.Bool("trace", false, "trace instructions")
	noReplay := fs.Bool("noreplay", false, "skip native replay of counterexamples")
	noEvidence := fs.Bool("noevidence", false, "do not write the evidence file")
	solverLog := fs.String("solverlog", "", "write worker 0's SMT-LIB stream here")
	cpuprof := fs.String("cpuprofile", "", "write a CPU profile")
	noKnown := fs.Bool("noknown", false, "ignore known_findings.txt (to confirm known findings natively)")
	fs.Parse(args)
	if *cpuprof != "" {
		f, _ := os.Create(*cpuprof)
		pprof.StartCPUProfile(f)
		defer pprof.StopCPUProfile()
	}
	if mp := os.Getenv("SYMGO_MEMPROFILE"); mp != "" {
		go func() {
			ch := make(chan os.Signal, 1)
			signal.Notify(ch, syscall.SIGUSR1)
			n := 0
			for range ch {
				n++
				f, _ := os.Create(fmt.Sprintf("%s.live%d", mp, n))
				pprof.WriteHeapProfile(f)
				f.Close()
			}
		}()
		defer func() {
			f, _ := os.Create(mp)
			pprof.WriteHeapProfile(f)
			f.Close()
			fmt.Fprintln(os.Stderr, "goroutines at exit:", runtime.NumGoroutine())
			g, _ := os.Create(mp + ".goroutines")
			pprof.Lookup("goroutine").WriteTo(g, 1)
			g.Close()
		}()
	}
	// A soft limit for the Go heap: with 16 workers allocating frames at full speed the collector's
	// default pacing let the resident set grow to the machine's 62 GB on multi-million-path runs.
	limitGB := int64(20)
	fmt.Sscan(os.Getenv("SYMGO_MEMLIMIT_GB"), &limitGB)
	rdebug.SetMemoryLimit(limitGB << 30)
	start := time.Now()
	seed := 0
	fmt.Sscan(os.Getenv("VERIF_SEED"), &seed)

	spec, dir, err := loadSpec(*id)
	if err != nil {
		fmt.Fprintln(os.Stderr, "error:", err)
		return 2
	}
	known, err := loadKnown()
	if err != nil {
		fmt.Fprintln(os.Stderr, "error:", err)
		return 2
	}
	knownSet := map[string]bool{}
	knownText := map[string]string{}
	for _, k := range known {
		if k.Property == spec.Property && !*noKnown {
			knownSet[k.ID] = true
			knownText[k.ID] = k.Text
		}
	}

	ovPaths, _ := overlayFiles(spec, dir, false)
	ov, err := readOverlay(ovPaths)
	if err != nil {
		fmt.Fprintln(os.Stderr, "error:", err)
		return 2
	}
	patterns := append([]string{"./" + spec.Dir}, spec.Patterns...)
	prog, err := interp.Load(interp.LoadConfig{Dir: repoDir, Overlay: ov, Patterns: patterns, Tags: "verif"})
	if err != nil {
		fmt.Fprintln(os.Stderr, "error: loading /repo:", err)
		fmt.Printf("BUILD-FAILED property=%s (the tree under /repo does not type-check with the harness)\n", spec.Property)
		return 2
	}
	if *verbose {
		fmt.Fprintf(os.Stderr, "loaded in %.1fs\n", prog.LoadTime.Seconds())
	}

	var results []EntryResult
	exit := 0
	broken := false
	violations := 0
	funcs := map[string]bool{}
	intercepts := map[string]bool{}
	assumes := map[string]bool{}
	knownSeen := map[string]string{}
	for _, e := range spec.Entries {
		if *only != "" && e.Name != *only {
			continue
		}
		tc, ok := e.Tiers[*tier]
		if !ok {
			tc, ok = e.Tiers["quick"]
			if !ok {
				continue
			}
		}
		if tc.Skip {
			continue
		}
		models := map[string]string{}
		for k, v := range spec.Models {
			models[k] = v
		}
		for k, v := range e.Models {
			models[k] = v
		}
		pkgPath := spec.Package
		if e.Package != "" {
			pkgPath = e.Package
		}
		cfg := interp.ExploreConfig{
			PkgPath: pkgPath, Entry: e.Name, Bounds: boundsFor(tc), Workers: *workers, Solver: *solver,
			InitExtra: spec.InitExtra, InitSkip: spec.InitSkip, Models: models, Known: knownSet, Verbose: *verbose, Trace: *trace,
			Params: tc.Params, Watch: e.Watch, SolverLog: *solverLog, Seed: seed,
		}
		t0 := time.Now()
		ex, err := prog.Explore(cfg)
		if err != nil {
			fmt.Fprintln(os.Stderr, "error:", err)
			return 2
		}
		res := EntryResult{
			Name: e.Name, Params: tc.Params, Paths: ex.Paths, PathsOK: ex.PathsOK, Infeasible: ex.Infeasible,
			Truncated: ex.Truncated, TruncWhy: interp.SortedCounts(ex.TruncWhy), EngineErr: ex.EngineErr,
			EngineMsgs: interp.SortedCounts(ex.EngineMsgs), Inconcl: ex.Inconcl, Nontrivial: ex.Nontrivial,
			Obligations: ex.Oblig, Discharged: ex.Discharged, Queries: ex.Queries, SolverTime: ex.SolveTime.Seconds(),
			Decisions: ex.Decisions, SchedPoints: ex.SchedPts, Reach: ex.Reach, Samples: ex.Samples, PathCapHit: ex.PathCapHit,
			Bounds: map[string]int{"max_steps": cfg.Bounds.MaxSteps, "max_decisions": cfg.Bounds.MaxDecisions, "max_paths": cfg.Bounds.MaxPaths,
				"concretize_cap": cfg.Bounds.ConcretizeCap, "preempt": cfg.Bounds.Preempt, "solver_timeout_ms": cfg.Bounds.SolverTimeout},
		}
		res.KnownHits = interp.SortedCounts(ex.KnownHits)
		for k := range ex.KnownHits {
			kid := strings.SplitN(k, " @ ", 2)[0]
			knownSeen[kid] = knownText[kid]
		}
		for f := range ex.Funcs {
			funcs[f] = true
		}
		for f := range ex.Intercepts {
			intercepts[f] = true
		}
		for f := range ex.Assumes {
			assumes[f] = true
		}
		fmt.Printf("[%s %s] %s (%.1fs)\n", spec.Property, e.Name, ex.Summary(), time.Since(t0).Seconds())
		// machinery problems
		if ex.EngineErr > 0 || ex.Inconcl > 0 {
			broken = true
			for _, m := range res.EngineMsgs {
				fmt.Printf("  ENGINE: %s\n", m)
			}
		}
		if os.Getenv("SYMGO_MEMPROFILE") != "" {
			fmt.Fprintln(os.Stderr, "max work queue:", ex.MaxQueue)
		}
		if ex.Truncated > 0 || ex.PathCapHit {
			broken = true
			fmt.Printf("  TRUNCATED: %d paths hit a bound %v (cap hit: %v): the registered bound does not run clean\n", ex.Truncated, res.TruncWhy, ex.PathCapHit)
		}
		for _, l := range e.Reach {
			if ex.Reach[l] == 0 && len(ex.Violations) == 0 {
				broken = true
				fmt.Printf("  VACUOUS: label %q was not reached on any path\n", l)
			}
		}
		// violations: replay natively
		for n, v := range ex.Violations {
			vo := ViolationOut{Kind: v.Kind, Label: v.Label, Msg: v.Msg, Inputs: v.Inputs, Stack: v.Stack, Events: v.Events}
			rp := filepath.Join(verifDir, "replays", spec.Property, fmt.Sprintf("%s-%d.json", e.Name, n))
			os.MkdirAll(filepath.Dir(rp), 0o755)
			writeJSON(rp, map[string]interface{}{"property": spec.Property, "entry": e.Name, "kind": v.Kind, "label": v.Label, "msg": v.Msg,
				"inputs": v.Inputs, "params": tc.Params, "stack": v.Stack, "events": v.Events, "trace": v.TraceOf(), "tier": *tier})
			vo.Replay = rp
			confirmed := true
			if !*noReplay && e.Replay == "engine" {
				rcfg := cfg
				rcfg.ReplayTrace = v.TraceOf()
				rex, rerr := prog.Explore(rcfg)
				confirmed = false
				if rerr == nil {
					for _, rv := range rex.Violations {
						if rv.Kind == v.Kind && rv.Label == v.Label {
							confirmed = true
						}
					}
				}
				if confirmed {
					vo.Replayed = "reproduced by deterministic re-execution of the recorded decision and schedule trace in the engine (native replay cannot force this schedule)"
				} else {
					vo.Replayed = "NOT reproduced by engine re-execution of the trace"
				}
			} else if !*noReplay {
				ok, out := nativeReplay(spec, dir, e, rp, v.Kind, v.Label)
				if !ok && e.Replay == "native-then-engine" {
					// The native harness steers only one interleaving; a counterexample that needs
					// another schedule is confirmed by re-executing its recorded trace in the engine.
					rcfg := cfg
					rcfg.ReplayTrace = v.TraceOf()
					if rex, rerr := prog.Explore(rcfg); rerr == nil {
						for _, rv := range rex.Violations {
							if rv.Kind == v.Kind && rv.Label == v.Label {
								ok = true
								out = "native run failed assertion-free (schedule not reachable by the native harness); confirmed by deterministic re-execution of the recorded decision and schedule trace in the engine\n"
							}
						}
					}
				}
				if ok {
					vo.Replayed = "reproduced natively"
					if strings.HasPrefix(out, "native run failed assertion-free") {
						vo.Replayed = "not reproduced natively (the native harness cannot force this schedule); reproduced by deterministic re-execution of the recorded decision and schedule trace in the engine"
					} else if strings.HasPrefix(out, "native run failed assertion") {
						vo.Replayed = "reproduced natively: " + out[:strings.IndexByte(out, '\n')]
					}
				} else {
					confirmed = false
					vo.Replayed = "NOT reproduced natively: " + tail(out, 600)
				}
			} else {
				vo.Replayed = "replay skipped"
			}
			res.Violations = append(res.Violations, vo)
			if confirmed {
				violations++
				exit = 1
				fmt.Printf("VIOLATION property=%s replay=%s\n", spec.Property, rp)
				fmt.Printf("  entry=%s kind=%s label=%s %s\n  inputs=%v\n  %s\n", e.Name, v.Kind, v.Label, v.Msg, compactInputs(v.Inputs), vo.Replayed)
				for _, s := range v.Stack {
					fmt.Printf("    at %s\n", s)
				}
			} else {
				broken = true
				fmt.Printf("UNREPRODUCED property=%s entry=%s kind=%s label=%s %s\n  inputs=%v\n  %s\n", spec.Property, e.Name, v.Kind, v.Label, v.Msg, compactInputs(v.Inputs), vo.Replayed)
				for _, s := range v.Stack {
					fmt.Printf("    at %s\n", s)
				}
			}
		}
		// witness twin
		if e.Witness != "" && len(ex.Violations) == 0 {
			wcfg := cfg
			wcfg.WitnessLabel = e.Witness
			wcfg.MaxViol = 1
			wex, err := prog.Explore(wcfg)
			if err != nil {
				fmt.Fprintln(os.Stderr, "error:", err)
				return 2
			}
			found := false
			for _, v := range wex.Violations {
				if v.Label == "witness:"+e.Witness {
					found = true
				}
			}
			if found {
				res.Witness = "violated as required (label " + e.Witness + " reachable)"
			} else {
				res.Witness = "NOT violated: harness may be vacuous"
				broken = true
				fmt.Printf("  VACUOUS: witness twin for label %q did not fail\n", e.Witness)
			}
		}
		res.WallS = time.Since(t0).Seconds()
		results = append(results, res)
	}

	for kid, text := range knownSeen {
		fmt.Printf("KNOWN-FINDING: property=%s %s\n", spec.Property, strings.TrimSpace(strings.Replace(text, "property="+spec.Property, "", 1)))
		_ = kid
	}

	interp.QLogDump()
	if !*noEvidence && *only == "" {
		writeEvidence(spec, *tier, seed, results, funcs, intercepts, assumes, violations, time.Since(start).Seconds(), *solver)
	}
	if exit == 1 {
		return 1
	}
	if broken {
		fmt.Printf("INCONCLUSIVE property=%s: the machinery could not decide every path (see above)\n", spec.Property)
		return 2
	}
	fmt.Printf("OK property=%s tier=%s\n", spec.Property, *tier)
	return 0
}

func compactInputs(m map[string]uint64) string {
	var ks []string
	for k := range m {
		ks = append(ks, k)
	}
	sort.Strings(ks)
	var sb strings.Builder
	for i, k := range ks {
		if i > 60 {
			sb.WriteString(" ...")
			break
		}
		fmt.Fprintf(&sb, " %s=%#x", k, m[k])
	}
	return sb.String()
}

func tail(s string, n int) string {
	if len(s) > n {
		return "..." + s[len(s)-n:]
	}
	return s
}

func writeJSON(path string, v interface{}) error {
	b, err := json.MarshalIndent(v, "", " ")
	if err != nil {
		return err
	}
	return os.WriteFile(path, append(b, '\n'), 0o644)
}

func writeEvidence(spec *Spec, tier string, seed int, results []EntryResult, funcs, intercepts, assumes map[string]bool, violations int, wall float64, solver string) {
	evals, nontriv, oblig, disch, states, trans := 0, 0, 0, 0, 0, 0
	var samples []interface{}
	solverTime := 0.0
	queries := 0
	for _, r := range results {
		evals += r.Paths
		nontriv += r.Nontrivial
		oblig += r.Obligations
		disch += r.Discharged
		states += r.Paths
		trans += r.Decisions
		solverTime += r.SolverTime
		queries += r.Queries
		for i, s := range r.Samples {
			if i >= 2 {
				break
			}
			samples = append(samples, map[string]interface{}{"entry": r.Name, "inputs_of_one_explored_path": s})
		}
	}
	if len(samples) == 0 {
		for _, r := range results {
			samples = append(samples, map[string]interface{}{"entry": r.Name, "note": "no symbolic inputs on sampled paths", "reach": r.Reach})
		}
	}
	assumptions := append([]string{}, spec.Assumptions...)
	assumptions = append(assumptions, interp.SortedKeys(assumes)...)
	assumptions = append(assumptions,
		"bounded: verdicts hold for all values of the symbolic inputs within the per-entry params/bounds listed under coverage.entries; nothing is claimed outside them",
		"Go maps iterate in insertion order inside the engine",
		"intercepted functions (coverage.intercepts) behave as their engine model/stub",
		"trusted: go/ssa construction (x/tools v0.29.0), the symgo interpreter fork, "+solver)
	level := spec.Level
	if level == "" {
		level = "model_checking"
	}
	ev := map[string]interface{}{
		"property_id": spec.Property,
		"tier":        tier,
		"seed":        seed,
		"level":       level,
		"wall_s":      wall,
		"violations":  violations,
		"assumptions": assumptions,
		"coverage": map[string]interface{}{
			"evaluations":                   evals,
			"distinct_nontrivial":           nontriv,
			"rule":                          "each evaluation is one feasible symbolic path (distinct decision prefix) through the harness and the real martian code, standing for all input values satisfying its path condition; non-trivial = the path reached at least one property assertion. " + spec.Rule,
			"samples":                       samples,
			"states":                        states,
			"transitions":                   trans,
			"traces_validated_against_impl": 0,
			"obligations":                   oblig,
			"discharged":                    disch,
			"solver_queries":                queries,
			"solver_time_s":                 solverTime,
			"solver":                        solver,
			"functions_encoded":             interp.SortedKeys(funcs),
			"intercepts":                    interp.SortedKeys(intercepts),
			"entries":                       results,
			"exhaustive":                    false,
			"technique":                     "bounded symbolic execution of go/ssa with SMT (QF_BV) path conditions; unsat of pc ∧ ¬assertion on every path",
		},
	}
	os.MkdirAll(filepath.Join(verifDir, "evidence"), 0o755)
	if err := writeJSON(filepath.Join(verifDir, "evidence", spec.Property+".json"), ev); err != nil {
		fmt.Fprintln(os.Stderr, "error writing evidence:", err)
	}
}

// nativeReplay runs the harness entry natively (real compiler, real libraries)
// on the counterexample and reports whether the violation reproduces.
func nativeReplay(spec *Spec, dir string, e Entry, replayPath, kind, label string) (bool, string) {
	tmp, err := os.MkdirTemp("", "symgo-replay-")
	if err != nil {
		return false, err.Error()
	}
	defer os.RemoveAll(tmp)
	ovPaths, _ := overlayFiles(spec, dir, true)
	timeout := e.Timeout
	if timeout <= 0 {
		timeout = 20
	}
	pkgPath, pkgDir := spec.Package, spec.Dir
	if e.Package != "" {
		pkgPath, pkgDir = e.Package, e.Dir
	}
	pkgName := filepath.Base(pkgPath)
	if pkgName == "v3" {
		pkgName = "martian"
	}
	if n, ok := pkgNames[pkgPath]; ok {
		pkgName = n
	}
	test := fmt.Sprintf(`//go:build verif && verifnative

package %s

import (
	"fmt"
	"os"
	"testing"
	"time"

	"github.com/google/martian/v3/zzverif/vf"
)

func TestVerifReplay(t *testing.T) {
	vf.Reset()
	done := make(chan struct{})
	go func() {
		defer close(done)
		%s()
	}()
	select {
	case <-done:
	case <-time.After(%d * time.Second):
		fmt.Println("VERIF-TIMEOUT")
		os.Exit(3)
	}
	if len(vf.Failed) > 0 {
		t.Fatalf("VERIF-FAILED %%v", vf.Failed)
	}
	fmt.Println("VERIF-PASSED")
}
`, pkgName, e.Name, timeout/2+1)
	testFile := filepath.Join(tmp, "replay_test.go")
	os.WriteFile(testFile, []byte(test), 0o644)
	ovPaths[filepath.Join(repoDir, pkgDir, "zz_verif_replay_test.go")] = testFile
	ovJSON := filepath.Join(tmp, "overlay.json")
	writeJSON(ovJSON, map[string]interface{}{"Replace": ovPaths})
	cmd := exec.Command("go", "test", "-tags", "verif verifnative", "-vet=off", "-count=1", "-overlay", ovJSON, "-run", "^TestVerifReplay$", "-v", "./"+pkgDir)
	cmd.Dir = repoDir
	cmd.Env = append(os.Environ(), "GOFLAGS=-mod=mod", "GOPROXY=off", "GOSUMDB=off", "GOTOOLCHAIN=local", "VERIF_REPLAY="+replayPath)
	var out bytes.Buffer
	cmd.Stdout = &out
	cmd.Stderr = &out
	done := make(chan error, 1)
	cmd.Start()
	go func() { done <- cmd.Wait() }()
	select {
	case <-done:
	case <-time.After(time.Duration(timeout+120) * time.Second):
		cmd.Process.Kill()
		return false, "replay timed out\n" + out.String()
	}
	o := out.String()
	if strings.Contains(o, "VERIF-ASSUME-VIOLATED") {
		return false, o
	}
	switch kind {
	case "assert":
		if strings.Contains(o, "VERIF-ASSERT-FAILED "+label) {
			return true, o
		}
		// The engine stops a path at its first failed assertion and some observations exist only
		// in the engine (recorded sleeps, the stub file system's list of opened paths). A native
		// run of the same inputs that fails another assertion of the same harness is a
		// reproduced violation of the property all the same; say which one.
		if i := strings.Index(o, "VERIF-ASSERT-FAILED "); i >= 0 {
			rest := o[i+len("VERIF-ASSERT-FAILED "):]
			if j := strings.IndexByte(rest, '\n'); j >= 0 {
				rest = rest[:j]
			}
			return true, "native run failed assertion \"" + rest + "\" (engine: \"" + label + "\")\n" + o
		}
		return false, o
	case "panic":
		return strings.Contains(o, "panic:") && !strings.Contains(o, "VERIF-PASSED"), o
	case "deadlock":
		return strings.Contains(o, "VERIF-TIMEOUT") || strings.Contains(o, "all goroutines are asleep"), o
	case "lockset":
		// lock-discipline findings are confirmed by the race detector separately; accept.
		return true, o
	}
	return false, o
}

// pkgNames maps import paths to package names where they differ from the last path element.
var pkgNames = map[string]string{
	"github.com/google/martian/v3":           "martian",
	"github.com/google/martian/v3/martianlog": "martianlog",
}

func cmdReplay(args []string) int {
	fs := flag.NewFlagSet("replay", flag.ExitOnError)
	id := fs.String("id", "", "property id")
	path := fs.String("path", "", "replay file")
	fs.Parse(args)
	spec, dir, err := loadSpec(*id)
	if err != nil {
		fmt.Fprintln(os.Stderr, "error:", err)
		return 2
	}
	if abs, err := filepath.Abs(*path); err == nil {
		*path = abs
	}
	b, err := os.ReadFile(*path)
	if err != nil {
		fmt.Fprintln(os.Stderr, "error:", err)
		return 2
	}
	var rf struct {
		Entry  string         `json:"entry"`
		Kind   string         `json:"kind"`
		Label  string         `json:"label"`
		Trace  [][3]uint64    `json:"trace"`
		Params map[string]int `json:"params"`
		Tier   string         `json:"tier"`
	}
	json.Unmarshal(b, &rf)
	for _, e := range spec.Entries {
		if e.Name == rf.Entry && e.Replay == "engine" {
			ovPaths, _ := overlayFiles(spec, dir, false)
			ov, err := readOverlay(ovPaths)
			if err != nil {
				fmt.Fprintln(os.Stderr, "error:", err)
				return 2
			}
			prog, err := interp.Load(interp.LoadConfig{Dir: repoDir, Overlay: ov, Patterns: append([]string{"./" + spec.Dir}, spec.Patterns...), Tags: "verif"})
			if err != nil {
				fmt.Fprintln(os.Stderr, "error:", err)
				return 2
			}
			tc := e.Tiers[rf.Tier]
			pkgPath := spec.Package
			if e.Package != "" {
				pkgPath = e.Package
			}
			cfg := interp.ExploreConfig{PkgPath: pkgPath, Entry: e.Name, Bounds: boundsFor(tc), Workers: 1, Solver: "z3", InitExtra: spec.InitExtra,
				InitSkip: spec.InitSkip, Models: spec.Models, Params: rf.Params, Watch: e.Watch, ReplayTrace: rf.Trace}
			ex, err := prog.Explore(cfg)
			if err != nil {
				fmt.Fprintln(os.Stderr, "error:", err)
				return 2
			}
			for _, v := range ex.Violations {
				if v.Kind == rf.Kind && v.Label == rf.Label {
					fmt.Printf("engine re-execution of the recorded trace: %s %s %s\n", v.Kind, v.Label, v.Msg)
					fmt.Printf("VIOLATION property=%s replay=%s\n", spec.Property, *path)
					return 1
				}
			}
			fmt.Println("not reproduced")
			return 0
		}
		if e.Name == rf.Entry {
			ok, out := nativeReplay(spec, dir, e, *path, rf.Kind, rf.Label)
			fmt.Println(out)
			if ok {
				fmt.Printf("VIOLATION property=%s replay=%s\n", spec.Property, *path)
				return 1
			}
			fmt.Println("not reproduced")
			return 0
		}
	}
	fmt.Fprintln(os.Stderr, "entry not found:", rf.Entry)
	return 2
}
