package interp

// Path exploration: stateless re-execution with decision prefixes.

import (
	"runtime/debug"
	"fmt"
	"go/types"
	"os"
	"sort"
	"strings"
	"sync"
	"time"

	"golang.org/x/tools/go/ssa"
)

type decision struct {
	D int32  // branch taken (0/1) or index chosen
	V uint64 // value compared against, for concretisation decisions
	K uint8  // kind: 1 branch, 2 concretise, 3 choice
}

func (c *pathCtx) replayKind(d decision, k uint8) {
	if d.K != k {
		c.abort("engine", fmt.Sprintf("replay divergence: recorded decision kind %d, now %d", d.K, k))
	}
}

type workItem struct {
	prefix []decision
	model  Model
}

// Bounds are the explicit limits of an exploration.
type Bounds struct {
	MaxSteps      int // SSA instructions per path
	MaxDecisions  int // symbolic/schedule decisions per path
	MaxPaths      int // total paths per harness
	ConcretizeCap int // max distinct values when a symbolic integer must become concrete
	MaxCallDepth  int
	Preempt       int // preemption bound for the scheduler (-1: no preemption except at blocking)
	SolverTimeout int // ms per query
	FixedSchedule bool // resolve scheduling choices deterministically (first runnable goroutine)
}

func DefaultBounds() Bounds {
	return Bounds{MaxSteps: 2_000_000, MaxDecisions: 400, MaxPaths: 200_000, ConcretizeCap: 64, MaxCallDepth: 400, Preempt: -1, SolverTimeout: 20000}
}

// InputVal describes one symbolic input created by the harness.
type InputVal struct {
	Name string
	Kind string
	term *Term
}

type Violation struct {
	Kind   string // "assert", "panic", "deadlock"
	Label  string
	Msg    string
	Inputs map[string]uint64
	Stack  []string
	Known  string // id of the known finding whose region this falls in ("" if none)
	Trace  []decision
	Events []string
}

// pathAbort is the panic value used to unwind the interpreter when a path ends early.
type pathAbort struct {
	kind string // "infeasible", "violation", "truncated", "engine", "killed"
	msg  string
}

// rtPanic is a Go run-time error raised by the target program.
type rtPanic struct {
	msg string
	stk []string
}

func rtErr(msg string) rtPanic { return rtPanic{msg: msg} }

func (p rtPanic) Error() string { return "runtime error: " + p.msg }

type pathCtx struct {
	ex       *Explorer
	solver   *Solver
	prefix   []decision
	trace    []decision
	pc       []*Term
	asserted int
	model    Model
	eval     *evaluator
	vars     []*Term
	inputs   []InputVal
	nameCnt  map[string]int
	errText  bool // formatting the text of an error (see concValue)
	steps    int
	depth    int
	reach    map[string]bool
	events   []string
	oblig    int
	dischg   int
	knownAct map[string]*Term // active known-finding regions
	logs     []string
	preempts int
	assumes  map[string]bool
	held     map[heldKey]int
	lastTime *Term
	assertsSeen int
	watchOn  bool
	watchHits int
	doms     map[*Term]*byteDom
	domSkips int
	pend     []pendingAssert
	tlsConns map[*value]*tlsState
	fsys     *fsState
	x509     *x509State
	fixedSched bool
	tlsDialTarget iface
	tlsOK    bool
	tlsProto value
	codecs   map[*value]*codecState
	regexps  map[*value]*regexState
	symTime  bool
	clock    int64
	fixed    map[uint64][]fixedTerm
	nfixed   int
}

type fixedTerm struct {
	t *Term
	v uint64
}

// pin records that the path condition implies t == v.
func (c *pathCtx) pin(t *Term, v uint64) {
	for depth := 0; depth < 8; depth++ {
		if t.isConst() {
			return
		}
		h := t.hash()
		dup := false
		for _, f := range c.fixed[h] {
			if sameTerm(f.t, t) {
				dup = true
			}
		}
		if !dup {
			c.fixed[h] = append(c.fixed[h], fixedTerm{t, v})
			c.nfixed++
		}
		// invert simple wrappers so the inner term is pinned too
		switch {
		case t.op == opAdd && t.b.isConst():
			v = (v - t.b.k) & mask(t.w)
			t = t.a
		case t.op == opAdd && t.a.isConst():
			v = (v - t.a.k) & mask(t.w)
			t = t.b
		case t.op == opSub && t.b.isConst():
			v = (v + t.b.k) & mask(t.w)
			t = t.a
		case t.op == opZext && v <= mask(t.a.w):
			t = t.a
		case t.op == opSext && uint64(signExt(v&mask(t.a.w), t.a.w))&mask(t.w) == v:
			v &= mask(t.a.w)
			t = t.a
		default:
			return
		}
	}
}

// subst rewrites t using the pinned terms; the result is equivalent to t under
// the path condition.
func (c *pathCtx) subst(t *Term) *Term {
	if c.nfixed == 0 || t.isConst() {
		return t
	}
	memo := map[*Term]*Term{}
	var rec func(t *Term) *Term
	rec = func(t *Term) *Term {
		if t.op == opConst {
			return t
		}
		if r, ok := memo[t]; ok {
			return r
		}
		var r *Term
		for _, f := range c.fixed[t.hash()] {
			if sameTerm(f.t, t) {
				r = mkConst(t.w, f.v)
				if t.w == 0 {
					r = mkBool(f.v == 1)
				}
			}
		}
		if r == nil {
			if t.op == opVar {
				r = t
			} else {
				var a, b, cc *Term
				if t.a != nil {
					a = rec(t.a)
				}
				if t.b != nil {
					b = rec(t.b)
				}
				if t.c != nil {
					cc = rec(t.c)
				}
				if a == t.a && b == t.b && cc == t.c {
					r = t
				} else {
					r = rebuild(t, a, b, cc)
				}
			}
		}
		memo[t] = r
		return r
	}
	return rec(t)
}

type pendingAssert struct {
	t     *Term
	label string
	stack []string
	nev   int
}

// byteDom is the set of values an 8-bit (or boolean) variable can still take
// according to the path-condition terms that depend on that variable alone.
type byteDom struct {
	set       [4]uint64
	pending   []*Term // single-variable pc terms not yet applied
	entangled bool    // the variable also occurs in multi-variable pc terms
}

func (d *byteDom) has(v uint64) bool { return d.set[v>>6]&(1<<(v&63)) != 0 }

func (c *pathCtx) domOf(x *Term) *byteDom {
	d := c.doms[x]
	if d == nil {
		d = &byteDom{}
		n := uint64(256)
		if x.w == 0 {
			n = 2
		}
		for v := uint64(0); v < n; v++ {
			d.set[v>>6] |= 1 << (v & 63)
		}
		c.doms[x] = d
	}
	for _, t := range d.pending {
		for w := 0; w < 4; w++ {
			bits := d.set[w]
			for bits != 0 {
				b := uint64(trailingZeros(bits))
				bits &^= 1 << b
				v := uint64(w)<<6 | b
				if evalSingle(t, v) != 1 {
					d.set[w] &^= 1 << b
				}
			}
		}
	}
	d.pending = nil
	return d
}

func trailingZeros(x uint64) int {
	n := 0
	for x&1 == 0 {
		x >>= 1
		n++
	}
	return n
}

// notePC records a new path-condition term in the byte domains.
func (c *pathCtx) notePC(t *Term) {
	if t.multi {
		c.markEntangled(t, 0)
		return
	}
	if x := t.sup; x != nil && x.w <= 8 && t.size <= 3000 {
		d := c.doms[x]
		if d == nil {
			d = c.domOf(x)
		}
		d.pending = append(d.pending, t)
	} else if x != nil {
		// wide single variable: domain not tracked
	}
}

func (c *pathCtx) markEntangled(t *Term, depth int) {
	if t == nil || (!t.multi && t.sup == nil) {
		return
	}
	if !t.multi {
		if t.sup.w <= 8 {
			c.domOf(t.sup).entangled = true
		}
		return
	}
	c.markEntangled(t.a, depth+1)
	c.markEntangled(t.b, depth+1)
	c.markEntangled(t.c, depth+1)
}

// quickDecide tries to decide a single-byte-variable condition without the
// solver. It returns (feasibleTrue, feasibleFalse, decided, witness value for
// the side the current model does not take).
func (c *pathCtx) quickDecide(t *Term) (ft, ff, decided bool, d *byteDom) {
	if t.multi || t.sup == nil || t.sup.w > 8 || t.size > 3000 {
		return false, false, false, nil
	}
	d = c.domOf(t.sup)
	for w := 0; w < 4; w++ {
		bits := d.set[w]
		for bits != 0 {
			b := uint64(trailingZeros(bits))
			bits &^= 1 << b
			if evalSingle(t, uint64(w)<<6|b) == 1 {
				ft = true
			} else {
				ff = true
			}
			if ft && ff {
				break
			}
		}
	}
	if !ft || !ff {
		// one side is impossible already by this variable's own constraints: sound
		return ft, ff, true, d
	}
	if d.entangled {
		return ft, ff, false, d
	}
	return true, true, true, d
}

// pickValue returns a value of d's variable for which t evaluates to want.
func (d *byteDom) pickValue(t *Term, want bool) (uint64, bool) {
	for w := 0; w < 4; w++ {
		bits := d.set[w]
		for bits != 0 {
			b := uint64(trailingZeros(bits))
			bits &^= 1 << b
			v := uint64(w)<<6 | b
			if (evalSingle(t, v) == 1) == want {
				return v, true
			}
		}
	}
	return 0, false
}

var _ = fmt.Sprint

// Explorer runs one harness entry point over all feasible paths.
type Explorer struct {
	Bounds  Bounds
	Workers int
	Solver  string

	mu         sync.Mutex
	cond       *sync.Cond
	queue      []workItem
	active     int
	stop       bool
	Paths      int
	PathsOK    int
	Infeasible int
	Truncated  int
	TruncWhy   map[string]int
	EngineErr  int
	EngineMsgs map[string]int
	Inconcl    int
	Oblig      int
	Discharged int
	Violations []Violation
	KnownHits  map[string]int
	Reach      map[string]int
	Funcs      map[string]bool
	Intercepts map[string]bool
	Assumes    map[string]bool
	Samples    []map[string]uint64
	NontrivSig map[string]bool
	Queries    int
	SolveTime  time.Duration
	SolverErrs int
	Decisions  int
	SchedPts   int
	MaxViol    int
	Known      map[string]bool // known-finding ids that are active (from known_findings.txt)
	Verbose    bool
	models     map[string]*ssa.Function
	Nontrivial int
	ViolPaths  int
	PathCapHit bool
	Watch      map[string]string // "pkg.Type.field" -> lock field name
	WatchHits  int
	Params     map[string]int
	WitnessLabel string
	MaxQueue     int // largest size of the work queue (frontier of unexplored decision prefixes)
}

func (ex *Explorer) push(it workItem) {
	ex.mu.Lock()
	ex.queue = append(ex.queue, it)
	if len(ex.queue) > ex.MaxQueue {
		ex.MaxQueue = len(ex.queue)
	}
	ex.mu.Unlock()
	ex.cond.Signal()
}

func (ex *Explorer) pop() (workItem, bool) {
	ex.mu.Lock()
	defer ex.mu.Unlock()
	for {
		if ex.stop {
			return workItem{}, false
		}
		if n := len(ex.queue); n > 0 {
			it := ex.queue[n-1]
			ex.queue = ex.queue[:n-1]
			ex.active++
			return it, true
		}
		if ex.active == 0 {
			ex.cond.Broadcast()
			return workItem{}, false
		}
		ex.cond.Wait()
	}
}

func (ex *Explorer) done() {
	ex.mu.Lock()
	ex.active--
	if ex.active == 0 && len(ex.queue) == 0 {
		ex.cond.Broadcast()
	}
	ex.mu.Unlock()
}

// ---------------------------------------------------------------------------

func (c *pathCtx) abort(kind, msg string) {
	panic(pathAbort{kind, msg})
}

func (c *pathCtx) newVar(name string, k types.BasicKind) value {
	n := c.nameCnt[name]
	c.nameCnt[name] = n + 1
	full := name
	if n > 0 {
		full = fmt.Sprintf("%s#%d", name, n)
	}
	// SMT-LIB symbol: quote with bars
	t := mkVar(kindWidth(k), "|"+full+"|")
	c.vars = append(c.vars, t)
	c.inputs = append(c.inputs, InputVal{Name: full, Kind: types.Typ[k].Name(), term: t})
	return symv{k, t}
}

func (c *pathCtx) addPC(t *Term) {
	c.pc = append(c.pc, t)
	c.notePC(t)
}

func (c *pathCtx) flushPC() {
	for c.asserted < len(c.pc) {
		c.solver.Assert(c.pc[c.asserted])
		c.asserted++
	}
}

func (c *pathCtx) setModel(m Model) {
	c.model = m
	c.eval = newEvaluator(m)
}

// ensureModel makes sure c.model satisfies the current path condition.
func (c *pathCtx) ensureModel() {
	if c.model != nil {
		return
	}
	c.flushPC()
	res, m := c.solver.Check(nil, c.vars, true)
	switch res {
	case Sat:
		c.setModel(m)
	case Unsat:
		c.abort("infeasible", "path condition unsat")
	default:
		c.abort("inconclusive", "solver: "+c.solver.LastErr)
	}
}

func (c *pathCtx) evalBool(t *Term) bool {
	return c.eval.eval(t) == 1
}

func (c *pathCtx) record(d decision) {
	c.trace = append(c.trace, d)
	if len(c.trace) > c.ex.Bounds.MaxDecisions {
		c.abort("truncated", "decision bound")
	}
}

// branch decides a symbolic condition, forking the path if both sides are feasible.
func (c *pathCtx) branch(t *Term) bool {
	if t.isConst() {
		return t.k == 1
	}
	if st := c.subst(t); st.isConst() {
		return st.k == 1
	}
	if n := len(c.trace); n < len(c.prefix) {
		d := c.prefix[n]
		c.replayKind(d, 1)
		c.trace = append(c.trace, d)
		if d.D == 1 {
			c.addPC(t)
		} else {
			c.addPC(mkNot(t))
		}
		return d.D == 1
	}
	c.ensureModel()
	v := c.evalBool(t)
	var other *Term
	if v {
		other = mkNot(t)
	} else {
		other = t
	}
	d := decision{D: int32(b2u(v)), K: 1}
	var res SatResult
	var m Model
	if ft, ff, decided, dom := c.quickDecide(t); decided {
		c.domSkips++
		otherFeasible := ff
		if !v {
			otherFeasible = ft
		}
		if otherFeasible {
			// the variable is constrained only by its own domain: build the
			// sibling's model by changing this one variable
			val, _ := dom.pickValue(t, !v)
			m = Model{}
			for k, x := range c.model {
				m[k] = x
			}
			m[t.sup.name] = val
			res = Sat
		} else {
			res = Unsat
		}
	} else {
		c.flushPC()
		res, m = c.solver.Check(other, c.vars, true)
	}
	switch res {
	case Sat:
		alt := make([]decision, len(c.trace)+1)
		copy(alt, c.trace)
		alt[len(c.trace)] = decision{D: int32(b2u(!v)), K: 1}
		c.ex.push(workItem{prefix: alt, model: m})
	case Unknown:
		c.ex.noteInconclusive("branch: " + c.solver.LastErr)
	}
	c.record(d)
	if v {
		c.addPC(t)
	} else {
		c.addPC(other2(t, v))
	}
	return v
}

func other2(t *Term, v bool) *Term {
	if v {
		return t
	}
	return mkNot(t)
}

// concretize returns a concrete value for t, forking once per feasible value.
func (c *pathCtx) concretize(t *Term) uint64 {
	if t.isConst() {
		return t.k
	}
	v := c.concretize1(t)
	c.pin(t, v)
	return v
}

func (c *pathCtx) concretize1(t *Term) uint64 {
	if st := c.subst(t); st.isConst() {
		return st.k
	}
	tries := 0
	for {
		if n := len(c.trace); n < len(c.prefix) {
			d := c.prefix[n]
			c.replayKind(d, 2)
			c.trace = append(c.trace, d)
			eq := mkCmp(opEq, t, mkConst(t.w, d.V))
			if d.D == 1 {
				c.addPC(eq)
				return d.V
			}
			c.addPC(mkNot(eq))
			tries++
			continue
		}
		if tries >= c.ex.Bounds.ConcretizeCap {
			if os.Getenv("SYMGO_CAPLOG") != "" {
				fmt.Fprintf(os.Stderr, "concretize cap on %s\n%s\n", t.String(), debug.Stack())
			}
			c.abort("truncated", "concretize cap")
		}
		c.ensureModel()
		v := c.eval.eval(t)
		eq := mkCmp(opEq, t, mkConst(t.w, v))
		c.flushPC()
		res, m := c.solver.Check(mkNot(eq), c.vars, true)
		switch res {
		case Sat:
			alt := make([]decision, len(c.trace)+1)
			copy(alt, c.trace)
			alt[len(c.trace)] = decision{D: 0, V: v, K: 2}
			c.ex.push(workItem{prefix: alt, model: m})
		case Unknown:
			c.ex.noteInconclusive("concretize: " + c.solver.LastErr)
		}
		c.record(decision{D: 1, V: v, K: 2})
		c.addPC(eq)
		return v
	}
}

// choose makes a non-solver choice among n alternatives (schedules, environment).
func (c *pathCtx) choose(n int) int {
	if n <= 1 {
		return 0
	}
	if k := len(c.trace); k < len(c.prefix) {
		d := c.prefix[k]
		c.replayKind(d, 3)
		if int(d.D) >= n {
			c.abort("engine", "replay divergence: choice out of range")
		}
		c.trace = append(c.trace, d)
		return int(d.D)
	}
	for alt := n - 1; alt >= 1; alt-- {
		p := make([]decision, len(c.trace)+1)
		copy(p, c.trace)
		p[len(c.trace)] = decision{D: int32(alt), K: 3}
		c.ex.push(workItem{prefix: p, model: c.model})
	}
	c.record(decision{D: 0, K: 3})
	return 0
}

// assume constrains the path; aborts it if infeasible.
func (c *pathCtx) assume(t *Term) {
	if t.isTrue() {
		return
	}
	c.flushAsserts()
	c.assumeNoFlush(t)
}

func (c *pathCtx) assumeNoFlush(t *Term) {
	if t.isTrue() {
		return
	}
	if t.isFalse() {
		c.abort("infeasible", "assume false")
	}
	c.addPC(t)
	if len(c.trace) < len(c.prefix) {
		// still replaying a feasible prefix: no check needed yet
		return
	}
	if c.model != nil && c.evalBool(t) {
		return
	}
	c.model = nil
	c.ensureModel()
}

func (c *pathCtx) inputValues(m Model) map[string]uint64 {
	r := map[string]uint64{}
	ev := newEvaluator(m)
	for _, in := range c.inputs {
		r[in.Name] = ev.eval(in.term)
	}
	return r
}

// check registers an assertion. Assertions are discharged in batches (one
// query for the disjunction of their negations) at the next assume, known-
// finding change, or end of path; the path continues without assuming them.
func (c *pathCtx) check(t *Term, label string, fr *frame) {
	c.assertsSeen++
	if len(c.trace) < len(c.prefix) {
		// Before the divergence point of this work item: the same assertion
		// under the same path condition is discharged by the ancestor path
		// (every path extending the common prefix carries it).
		return
	}
	c.oblig++
	if t.isTrue() {
		c.dischg++
		return
	}
	if len(c.knownAct) > 0 || t.isFalse() {
		c.flushAsserts()
		c.checkNow(t, label, stackOf(fr))
		return
	}
	c.pend = append(c.pend, pendingAssert{t: t, label: label, stack: stackOf(fr), nev: len(c.events)})
	if len(c.pend) >= 32 {
		c.flushAsserts()
	}
}

// flushAsserts discharges the pending assertions with one query.
func (c *pathCtx) flushAsserts() {
	if len(c.pend) == 0 {
		return
	}
	pend := c.pend
	c.pend = nil
	bad := termFalse
	for _, p := range pend {
		bad = mkOr(bad, mkNot(p.t))
	}
	var viol Model
	if c.model != nil && len(c.trace) >= len(c.prefix) && c.evalBool(bad) {
		viol = c.model
	} else {
		c.flushPC()
		res, m := c.solver.Check(bad, c.vars, true)
		switch res {
		case Sat:
			viol = m
		case Unknown:
			c.ex.noteInconclusive("assert batch: " + c.solver.LastErr)
			return
		}
	}
	if viol == nil {
		c.dischg += len(pend)
		return
	}
	ev := newEvaluator(viol)
	for _, p := range pend {
		if ev.eval(p.t) == 0 {
			evs := c.events
			if p.nev <= len(evs) {
				evs = evs[:p.nev]
			}
			c.ex.addViolation(Violation{Kind: "assert", Label: p.label, Inputs: c.inputValues(viol), Stack: p.stack, Trace: append([]decision(nil), c.trace...), Events: append([]string(nil), evs...)})
			c.abort("violation", p.label)
		}
	}
	c.abort("engine", "assert batch: sat model violates no member")
}

// checkNow discharges one assertion immediately (known-finding regions, Fail).
func (c *pathCtx) checkNow(t *Term, label string, stack []string) {
	neg := mkNot(t)
	var knownIDs []string
	for id := range c.knownAct {
		knownIDs = append(knownIDs, id)
	}
	sort.Strings(knownIDs)
	outside := neg
	for _, id := range knownIDs {
		outside = mkAnd(outside, mkNot(c.knownAct[id]))
	}
	var viol Model
	if !outside.isFalse() {
		if c.model != nil && c.evalBool(outside) {
			viol = c.model
		} else {
			c.flushPC()
			res, m := c.solver.Check(outside, c.vars, true)
			switch res {
			case Sat:
				viol = m
			case Unknown:
				c.ex.noteInconclusive("assert " + label + ": " + c.solver.LastErr)
			}
		}
	}
	if viol != nil {
		c.ex.addViolation(Violation{Kind: "assert", Label: label, Inputs: c.inputValues(viol), Stack: stack, Trace: append([]decision(nil), c.trace...), Events: append([]string(nil), c.events...)})
		c.abort("violation", label)
	}
	for _, id := range knownIDs {
		in := mkAnd(neg, c.knownAct[id])
		if in.isFalse() {
			continue
		}
		c.flushPC()
		res, _ := c.solver.Check(in, c.vars, false)
		if res == Sat {
			c.ex.noteKnown(id, label)
		}
	}
	c.dischg++
	// Continue under the assumption that the assertion holds (inside a known
	// region the run continues with inputs outside it).
	c.assumeNoFlush(t)
}

func stackOf(fr *frame) []string {
	var s []string
	for f := fr; f != nil && len(s) < 24; f = f.caller {
		pos := ""
		if f.cur != nil && f.cur.Pos().IsValid() {
			p := f.fn.Prog.Fset.Position(f.cur.Pos())
			pos = fmt.Sprintf(" %s:%d", p.Filename, p.Line)
		}
		s = append(s, f.fn.String()+pos)
	}
	return s
}

// TraceOf exports a violation's decision trace for engine replay.
func (v Violation) TraceOf() [][3]uint64 {
	r := make([][3]uint64, len(v.Trace))
	for i, d := range v.Trace {
		r[i] = [3]uint64{uint64(d.D), d.V, uint64(d.K)}
	}
	return r
}

func (ex *Explorer) noteInconclusive(msg string) {
	ex.mu.Lock()
	ex.Inconcl++
	if ex.EngineMsgs == nil {
		ex.EngineMsgs = map[string]int{}
	}
	ex.EngineMsgs["inconclusive: "+msg]++
	ex.mu.Unlock()
}

func (ex *Explorer) noteKnown(id, label string) {
	ex.mu.Lock()
	if ex.KnownHits == nil {
		ex.KnownHits = map[string]int{}
	}
	ex.KnownHits[id+" @ "+label]++
	ex.mu.Unlock()
}

func (ex *Explorer) addViolation(v Violation) {
	ex.mu.Lock()
	defer ex.mu.Unlock()
	// keep one violation per (kind,label)
	for _, o := range ex.Violations {
		if o.Kind == v.Kind && o.Label == v.Label {
			return
		}
	}
	ex.Violations = append(ex.Violations, v)
	if ex.MaxViol > 0 && len(ex.Violations) >= ex.MaxViol {
		ex.stop = true
		ex.cond.Broadcast()
	}
}

func (ex *Explorer) Summary() string {
	var sb strings.Builder
	fmt.Fprintf(&sb, "paths=%d ok=%d infeasible=%d truncated=%d engine_err=%d inconclusive=%d obligations=%d discharged=%d violations=%d queries=%d solver_time=%.2fs",
		ex.Paths, ex.PathsOK, ex.Infeasible, ex.Truncated, ex.EngineErr, ex.Inconcl, ex.Oblig, ex.Discharged, len(ex.Violations), ex.Queries, ex.SolveTime.Seconds())
	return sb.String()
}

var qlog func(t *Term, res SatResult, d time.Duration)

func init() {
	if os.Getenv("SYMGO_QLOG") == "" {
		return
	}
	var mu sync.Mutex
	hist := map[string]*[3]float64{}
	qlog = func(t *Term, res SatResult, d time.Duration) {
		k := t.String()
		if len(k) > 160 {
			k = k[:160]
		}
		k = res.String() + " " + k
		mu.Lock()
		h := hist[k]
		if h == nil {
			h = &[3]float64{}
			hist[k] = h
		}
		h[0]++
		h[1] += d.Seconds()
		mu.Unlock()
	}
	QLogDump = func() {
		type kv struct {
			k string
			v [3]float64
		}
		var all []kv
		for k, v := range hist {
			all = append(all, kv{k, *v})
		}
		sort.Slice(all, func(i, j int) bool { return all[i].v[1] > all[j].v[1] })
		for i, e := range all {
			if i > 40 {
				break
			}
			fmt.Fprintf(os.Stderr, "%6.0f %7.2fs %s\n", e.v[0], e.v[1], e.k)
		}
	}
}

var QLogDump = func() {}
