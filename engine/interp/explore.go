package interp

// Path exploration: stateless re-execution with decision prefixes.

import (
	"fmt"
	"go/types"
	"sort"
	"strings"
	"sync"
	"time"

	"golang.org/x/tools/go/ssa"
)

type decision struct {
	D int32  // branch taken (0/1) or index chosen
	V uint64 // value compared against, for concretisation decisions
}

type workItem struct {
	prefix []decision
	model  Model
}

// Bounds are the explicit limits of an exploration.
type Bounds struct {
	MaxSteps      int // SSA instructions per path
	MaxDecisions  int // symbolic/schedule decisions per path
	MaxPaths      int // total paths per harness
	ConcretizeCap int // max distinct values when a symbolic integer must become concrete
	MaxCallDepth  int
	Preempt       int // preemption bound for the scheduler (-1: no preemption except at blocking)
	SolverTimeout int // ms per query
}

func DefaultBounds() Bounds {
	return Bounds{MaxSteps: 2_000_000, MaxDecisions: 400, MaxPaths: 200_000, ConcretizeCap: 64, MaxCallDepth: 400, Preempt: -1, SolverTimeout: 20000}
}

// InputVal describes one symbolic input created by the harness.
type InputVal struct {
	Name string
	Kind string
	term *Term
}

type Violation struct {
	Kind   string // "assert", "panic", "deadlock"
	Label  string
	Msg    string
	Inputs map[string]uint64
	Stack  []string
	Known  string // id of the known finding whose region this falls in ("" if none)
	Trace  []decision
	Events []string
}

// pathAbort is the panic value used to unwind the interpreter when a path ends early.
type pathAbort struct {
	kind string // "infeasible", "violation", "truncated", "engine", "killed"
	msg  string
}

// rtPanic is a Go run-time error raised by the target program.
type rtPanic struct {
	msg string
	stk []string
}

func rtErr(msg string) rtPanic { return rtPanic{msg: msg} }

func (p rtPanic) Error() string { return "runtime error: " + p.msg }

type pathCtx struct {
	ex       *Explorer
	solver   *Solver
	prefix   []decision
	trace    []decision
	pc       []*Term
	asserted int
	model    Model
	eval     *evaluator
	vars     []*Term
	inputs   []InputVal
	nameCnt  map[string]int
	steps    int
	depth    int
	reach    map[string]bool
	events   []string
	oblig    int
	dischg   int
	knownAct map[string]*Term // active known-finding regions
	logs     []string
	preempts int
	assumes  map[string]bool
	held     map[heldKey]int
	lastTime *Term
	assertsSeen int
	watchOn  bool
	watchHits int
}

// Explorer runs one harness entry point over all feasible paths.
type Explorer struct {
	Bounds  Bounds
	Workers int
	Solver  string

	mu         sync.Mutex
	cond       *sync.Cond
	queue      []workItem
	active     int
	stop       bool
	Paths      int
	PathsOK    int
	Infeasible int
	Truncated  int
	TruncWhy   map[string]int
	EngineErr  int
	EngineMsgs map[string]int
	Inconcl    int
	Oblig      int
	Discharged int
	Violations []Violation
	KnownHits  map[string]int
	Reach      map[string]int
	Funcs      map[string]bool
	Intercepts map[string]bool
	Assumes    map[string]bool
	Samples    []map[string]uint64
	NontrivSig map[string]bool
	Queries    int
	SolveTime  time.Duration
	SolverErrs int
	Decisions  int
	SchedPts   int
	MaxViol    int
	Known      map[string]bool // known-finding ids that are active (from known_findings.txt)
	Verbose    bool
	models     map[string]*ssa.Function
	Nontrivial int
	ViolPaths  int
	PathCapHit bool
	Watch      map[string]string // "pkg.Type.field" -> lock field name
	WatchHits  int
	Params     map[string]int
	WitnessLabel string
}

func (ex *Explorer) push(it workItem) {
	ex.mu.Lock()
	ex.queue = append(ex.queue, it)
	ex.mu.Unlock()
	ex.cond.Signal()
}

func (ex *Explorer) pop() (workItem, bool) {
	ex.mu.Lock()
	defer ex.mu.Unlock()
	for {
		if ex.stop {
			return workItem{}, false
		}
		if n := len(ex.queue); n > 0 {
			it := ex.queue[n-1]
			ex.queue = ex.queue[:n-1]
			ex.active++
			return it, true
		}
		if ex.active == 0 {
			ex.cond.Broadcast()
			return workItem{}, false
		}
		ex.cond.Wait()
	}
}

func (ex *Explorer) done() {
	ex.mu.Lock()
	ex.active--
	if ex.active == 0 && len(ex.queue) == 0 {
		ex.cond.Broadcast()
	}
	ex.mu.Unlock()
}

// ---------------------------------------------------------------------------

func (c *pathCtx) abort(kind, msg string) {
	panic(pathAbort{kind, msg})
}

func (c *pathCtx) newVar(name string, k types.BasicKind) value {
	n := c.nameCnt[name]
	c.nameCnt[name] = n + 1
	full := name
	if n > 0 {
		full = fmt.Sprintf("%s#%d", name, n)
	}
	// SMT-LIB symbol: quote with bars
	t := mkVar(kindWidth(k), "|"+full+"|")
	c.vars = append(c.vars, t)
	c.inputs = append(c.inputs, InputVal{Name: full, Kind: types.Typ[k].Name(), term: t})
	return symv{k, t}
}

func (c *pathCtx) addPC(t *Term) {
	c.pc = append(c.pc, t)
}

func (c *pathCtx) flushPC() {
	for c.asserted < len(c.pc) {
		c.solver.Assert(c.pc[c.asserted])
		c.asserted++
	}
}

func (c *pathCtx) setModel(m Model) {
	c.model = m
	c.eval = newEvaluator(m)
}

// ensureModel makes sure c.model satisfies the current path condition.
func (c *pathCtx) ensureModel() {
	if c.model != nil {
		return
	}
	c.flushPC()
	res, m := c.solver.Check(nil, c.vars, true)
	switch res {
	case Sat:
		c.setModel(m)
	case Unsat:
		c.abort("infeasible", "path condition unsat")
	default:
		c.abort("inconclusive", "solver: "+c.solver.LastErr)
	}
}

func (c *pathCtx) evalBool(t *Term) bool {
	return c.eval.eval(t) == 1
}

func (c *pathCtx) record(d decision) {
	c.trace = append(c.trace, d)
	if len(c.trace) > c.ex.Bounds.MaxDecisions {
		c.abort("truncated", "decision bound")
	}
}

// branch decides a symbolic condition, forking the path if both sides are feasible.
func (c *pathCtx) branch(t *Term) bool {
	if t.isConst() {
		return t.k == 1
	}
	if n := len(c.trace); n < len(c.prefix) {
		d := c.prefix[n]
		c.trace = append(c.trace, d)
		if d.D == 1 {
			c.addPC(t)
		} else {
			c.addPC(mkNot(t))
		}
		return d.D == 1
	}
	c.ensureModel()
	v := c.evalBool(t)
	var other *Term
	if v {
		other = mkNot(t)
	} else {
		other = t
	}
	c.flushPC()
	res, m := c.solver.Check(other, c.vars, true)
	d := decision{D: int32(b2u(v))}
	switch res {
	case Sat:
		alt := make([]decision, len(c.trace)+1)
		copy(alt, c.trace)
		alt[len(c.trace)] = decision{D: int32(b2u(!v))}
		c.ex.push(workItem{prefix: alt, model: m})
	case Unknown:
		c.ex.noteInconclusive("branch: " + c.solver.LastErr)
	}
	c.record(d)
	if v {
		c.addPC(t)
	} else {
		c.addPC(other2(t, v))
	}
	return v
}

func other2(t *Term, v bool) *Term {
	if v {
		return t
	}
	return mkNot(t)
}

// concretize returns a concrete value for t, forking once per feasible value.
func (c *pathCtx) concretize(t *Term) uint64 {
	if t.isConst() {
		return t.k
	}
	tries := 0
	for {
		if n := len(c.trace); n < len(c.prefix) {
			d := c.prefix[n]
			c.trace = append(c.trace, d)
			eq := mkCmp(opEq, t, mkConst(t.w, d.V))
			if d.D == 1 {
				c.addPC(eq)
				return d.V
			}
			c.addPC(mkNot(eq))
			tries++
			continue
		}
		if tries >= c.ex.Bounds.ConcretizeCap {
			c.abort("truncated", "concretize cap")
		}
		c.ensureModel()
		v := c.eval.eval(t)
		eq := mkCmp(opEq, t, mkConst(t.w, v))
		c.flushPC()
		res, m := c.solver.Check(mkNot(eq), c.vars, true)
		switch res {
		case Sat:
			alt := make([]decision, len(c.trace)+1)
			copy(alt, c.trace)
			alt[len(c.trace)] = decision{D: 0, V: v}
			c.ex.push(workItem{prefix: alt, model: m})
		case Unknown:
			c.ex.noteInconclusive("concretize: " + c.solver.LastErr)
		}
		c.record(decision{D: 1, V: v})
		c.addPC(eq)
		return v
	}
}

// choose makes a non-solver choice among n alternatives (schedules, environment).
func (c *pathCtx) choose(n int) int {
	if n <= 1 {
		return 0
	}
	if k := len(c.trace); k < len(c.prefix) {
		d := c.prefix[k]
		c.trace = append(c.trace, d)
		return int(d.D)
	}
	for alt := n - 1; alt >= 1; alt-- {
		p := make([]decision, len(c.trace)+1)
		copy(p, c.trace)
		p[len(c.trace)] = decision{D: int32(alt)}
		c.ex.push(workItem{prefix: p, model: c.model})
	}
	c.record(decision{D: 0})
	return 0
}

// assume constrains the path; aborts it if infeasible.
func (c *pathCtx) assume(t *Term) {
	if t.isTrue() {
		return
	}
	if t.isFalse() {
		c.abort("infeasible", "assume false")
	}
	c.addPC(t)
	if len(c.trace) < len(c.prefix) {
		// still replaying a feasible prefix: no check needed yet
		return
	}
	if c.model != nil && c.evalBool(t) {
		return
	}
	c.model = nil
	c.ensureModel()
}

func (c *pathCtx) inputValues(m Model) map[string]uint64 {
	r := map[string]uint64{}
	ev := newEvaluator(m)
	for _, in := range c.inputs {
		r[in.Name] = ev.eval(in.term)
	}
	return r
}

// check discharges an assertion. Returns normally if it holds on this path
// (or was a known finding); otherwise records the violation and aborts the path.
func (c *pathCtx) check(t *Term, label string, fr *frame) {
	c.assertsSeen++
	if len(c.trace) < len(c.prefix) {
		// Before the divergence point of this work item: the same assertion
		// under the same path condition was discharged by the ancestor path.
		c.addPC(t)
		return
	}
	c.oblig++
	if t.isTrue() {
		c.dischg++
		return
	}
	neg := mkNot(t)
	// Known-finding regions active on this path.
	var knownIDs []string
	for id := range c.knownAct {
		knownIDs = append(knownIDs, id)
	}
	sort.Strings(knownIDs)
	outside := neg
	for _, id := range knownIDs {
		outside = mkAnd(outside, mkNot(c.knownAct[id]))
	}
	var viol Model
	if !outside.isFalse() {
		if c.model != nil && c.evalBool(outside) {
			viol = c.model
		} else {
			c.flushPC()
			res, m := c.solver.Check(outside, c.vars, true)
			switch res {
			case Sat:
				viol = m
			case Unknown:
				c.ex.noteInconclusive("assert " + label + ": " + c.solver.LastErr)
			}
		}
	}
	if viol != nil {
		c.ex.addViolation(Violation{Kind: "assert", Label: label, Inputs: c.inputValues(viol), Stack: stackOf(fr), Trace: append([]decision(nil), c.trace...), Events: append([]string(nil), c.events...)})
		c.abort("violation", label)
	}
	// Inside known regions: report hits.
	for _, id := range knownIDs {
		in := mkAnd(neg, c.knownAct[id])
		if in.isFalse() {
			continue
		}
		c.flushPC()
		res, _ := c.solver.Check(in, c.vars, false)
		if res == Sat {
			c.ex.noteKnown(id, label)
		}
	}
	c.dischg++
	// Continue under the assumption that the assertion holds.
	if len(knownIDs) > 0 {
		c.assume(t)
	} else {
		c.addPC(t)
		if c.model != nil && !c.evalBool(t) {
			c.model = nil
		}
	}
}

func stackOf(fr *frame) []string {
	var s []string
	for f := fr; f != nil && len(s) < 24; f = f.caller {
		pos := ""
		if f.cur != nil && f.cur.Pos().IsValid() {
			p := f.fn.Prog.Fset.Position(f.cur.Pos())
			pos = fmt.Sprintf(" %s:%d", p.Filename, p.Line)
		}
		s = append(s, f.fn.String()+pos)
	}
	return s
}

func (ex *Explorer) noteInconclusive(msg string) {
	ex.mu.Lock()
	ex.Inconcl++
	if ex.EngineMsgs == nil {
		ex.EngineMsgs = map[string]int{}
	}
	ex.EngineMsgs["inconclusive: "+msg]++
	ex.mu.Unlock()
}

func (ex *Explorer) noteKnown(id, label string) {
	ex.mu.Lock()
	if ex.KnownHits == nil {
		ex.KnownHits = map[string]int{}
	}
	ex.KnownHits[id+" @ "+label]++
	ex.mu.Unlock()
}

func (ex *Explorer) addViolation(v Violation) {
	ex.mu.Lock()
	defer ex.mu.Unlock()
	// keep one violation per (kind,label)
	for _, o := range ex.Violations {
		if o.Kind == v.Kind && o.Label == v.Label {
			return
		}
	}
	ex.Violations = append(ex.Violations, v)
	if ex.MaxViol > 0 && len(ex.Violations) >= ex.MaxViol {
		ex.stop = true
		ex.cond.Broadcast()
	}
}

func (ex *Explorer) Summary() string {
	var sb strings.Builder
	fmt.Fprintf(&sb, "paths=%d ok=%d infeasible=%d truncated=%d engine_err=%d inconclusive=%d obligations=%d discharged=%d violations=%d queries=%d solver_time=%.2fs",
		ex.Paths, ex.PathsOK, ex.Infeasible, ex.Truncated, ex.EngineErr, ex.Inconcl, ex.Oblig, ex.Discharged, len(ex.Violations), ex.Queries, ex.SolveTime.Seconds())
	return sb.String()
}
