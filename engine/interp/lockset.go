package interp

// Lock-discipline monitor: for watched struct fields, every access made while
// the monitor is switched on must hold the struct's designated mutex (write
// mode for stores).

import (
	"fmt"
	"go/types"

	"golang.org/x/tools/go/ssa"
)

// WatchSpec: accesses to field Field of named struct type Type (full name,
// e.g. "github.com/google/martian/v3/har.Logger") require the mutex in field Lock.
type WatchSpec struct {
	Type  string
	Field string
	Lock  string
}

func (i *interpreter) watchFieldSlow(fr *frame, instr *ssa.FieldAddr) {
	c := i.ctx
	if !c.watchOn {
		return
	}
	pt, ok := instr.X.Type().Underlying().(*types.Pointer)
	if !ok {
		return
	}
	named, ok := pt.Elem().(*types.Named)
	if !ok {
		return
	}
	st, ok := named.Underlying().(*types.Struct)
	if !ok {
		return
	}
	tname := named.Obj().Pkg().Path() + "." + named.Obj().Name()
	fname := st.Field(instr.Field).Name()
	lockName, ok := i.ex.Watch[tname+"."+fname]
	if !ok {
		return
	}
	mode := 0
	if lockName == "*" {
		// any lock held by the current goroutine (the lock lives in another object)
		for k, m := range c.held {
			if k.g == i.sched.cur.id && m > mode {
				mode = m
			}
		}
	} else {
		lockIdx := -1
		for k := 0; k < st.NumFields(); k++ {
			if st.Field(k).Name() == lockName {
				lockIdx = k
			}
		}
		if lockIdx < 0 {
			return
		}
		sv := (*fr.get(instr.X).(*value)).(structure)
		lockAddr := &sv[lockIdx]
		mode = c.held[heldKey{i.sched.cur.id, lockAddr}]
	}
	write := false
	if refs := instr.Referrers(); refs != nil {
		for _, r := range *refs {
			switch r := r.(type) {
			case *ssa.Store:
				if r.Addr == instr {
					write = true
				}
			case *ssa.MapUpdate:
				write = true
			}
		}
	}
	// a map-typed or pointer-typed field that is loaded and then mutated
	// (MapUpdate, delete) counts as a write when the loaded value flows into one
	if !write {
		if refs := instr.Referrers(); refs != nil {
			for _, r := range *refs {
				if u, ok := r.(*ssa.UnOp); ok {
					if urefs := u.Referrers(); urefs != nil {
						for _, ur := range *urefs {
							switch ur := ur.(type) {
							case *ssa.MapUpdate:
								if ur.Map == u {
									write = true
								}
							case *ssa.Call:
								if b, ok := ur.Call.Value.(*ssa.Builtin); ok && b.Name() == "delete" {
									write = true
								}
							}
						}
					}
				}
			}
		}
	}
	c.watchHits++
	need := 1
	if write {
		need = 2
	}
	if mode < need {
		kind := "read"
		if write {
			kind = "write"
		}
		label := fmt.Sprintf("lockset:%s.%s", tname, fname)
		msg := fmt.Sprintf("%s of %s.%s without holding %s (mode held=%d) in g%d", kind, tname, fname, lockName, mode, i.sched.cur.id)
		c.ex.addViolation(Violation{Kind: "lockset", Label: label, Msg: msg, Inputs: c.safeInputs(), Stack: stackOf(fr), Trace: append([]decision(nil), c.trace...), Events: append([]string(nil), c.events...)})
		c.abort("violation", label)
	}
}
