package interp

// Insertion-ordered maps. All Go maps of the target program are represented by
// *omap so that iteration order is deterministic (required for re-execution)
// and so that keys may contain symbolic parts.

import (
	"go/types"
)

type hashable interface {
	hash(t types.Type) int
	eq(t types.Type, x interface{}) bool
}

type omap struct {
	kt      types.Type
	keys    []value
	vals    []value
	live    []bool
	n       int
	buckets map[int][]int // hash -> entry indices (concrete keys only)
	symIdx  []int         // entries whose key has symbolic parts
}

func makeMap(kt types.Type, reserve int64) value {
	return &omap{kt: kt, buckets: map[int][]int{}}
}

func (m *omap) len() int {
	if m == nil {
		return 0
	}
	return m.n
}

// find returns the entry index for key k, or -1. It may fork the path when
// symbolic keys are involved.
func (m *omap) find(i *interpreter, k value) int {
	if m == nil {
		return -1
	}
	if !hasSym(k) {
		h := hash(m.kt, m.kt, k)
		for _, idx := range m.buckets[h] {
			if m.live[idx] && equals(m.kt, m.keys[idx], k) {
				return idx
			}
		}
		for _, idx := range m.symIdx {
			if m.live[idx] && i.ctx.branch(eqTerm(m.kt, m.keys[idx], k)) {
				return idx
			}
		}
		return -1
	}
	for idx := range m.keys {
		if !m.live[idx] {
			continue
		}
		if i.ctx.branch(eqTerm(m.kt, m.keys[idx], k)) {
			return idx
		}
	}
	return -1
}

func (m *omap) lookup(i *interpreter, k value) (value, bool) {
	idx := m.find(i, k)
	if idx < 0 {
		return nil, false
	}
	return m.vals[idx], true
}

func (m *omap) insert(i *interpreter, k, v value) {
	if m == nil {
		panic(rtErr("assignment to entry in nil map"))
	}
	if idx := m.find(i, k); idx >= 0 {
		m.vals[idx] = v
		return
	}
	idx := len(m.keys)
	m.keys = append(m.keys, k)
	m.vals = append(m.vals, v)
	m.live = append(m.live, true)
	m.n++
	if hasSym(k) {
		m.symIdx = append(m.symIdx, idx)
	} else {
		h := hash(m.kt, m.kt, k)
		m.buckets[h] = append(m.buckets[h], idx)
	}
}

func (m *omap) delete(i *interpreter, k value) {
	if m == nil {
		return
	}
	if idx := m.find(i, k); idx >= 0 {
		m.live[idx] = false
		m.vals[idx] = nil
		m.n--
	}
}

type omapIter struct {
	m   *omap
	pos int
}

func (it *omapIter) next() tuple {
	if it.m != nil {
		for it.pos < len(it.m.keys) {
			idx := it.pos
			it.pos++
			if it.m.live[idx] {
				return tuple{true, it.m.keys[idx], it.m.vals[idx]}
			}
		}
	}
	return tuple{false, nil, nil}
}
