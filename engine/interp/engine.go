package interp

// Top level: load /repo with an overlay, build SSA, explore a harness entry point.

import (
	"fmt"
	"go/token"
	"go/types"
	"os"
	"runtime/debug"
	"sort"
	"strings"
	"sync"
	"time"

	"golang.org/x/tools/go/packages"
	"golang.org/x/tools/go/ssa"
	"golang.org/x/tools/go/ssa/ssautil"
)

type LoadConfig struct {
	Dir      string
	Overlay  map[string][]byte
	Patterns []string
	Tags     string
}

type Program struct {
	Prog     *ssa.Program
	Pkgs     []*packages.Package
	SSAPkgs  []*ssa.Package
	LoadTime time.Duration
	sizes    types.Sizes
}

func Load(cfg LoadConfig) (*Program, error) {
	start := time.Now()
	pc := &packages.Config{
		Mode:    packages.LoadAllSyntax,
		Dir:     cfg.Dir,
		Overlay: cfg.Overlay,
		Env:     append(os.Environ(), "GOFLAGS=-mod=mod", "GOPROXY=off", "GOSUMDB=off", "GOTOOLCHAIN=local", "CGO_ENABLED=0"),
	}
	if cfg.Tags != "" {
		pc.BuildFlags = []string{"-tags=" + cfg.Tags}
	}
	pkgs, err := packages.Load(pc, cfg.Patterns...)
	if err != nil {
		return nil, err
	}
	var errs []string
	packages.Visit(pkgs, nil, func(p *packages.Package) {
		for _, e := range p.Errors {
			errs = append(errs, e.Error())
		}
	})
	if len(errs) > 0 {
		if len(errs) > 20 {
			errs = errs[:20]
		}
		return nil, fmt.Errorf("load errors:\n%s", strings.Join(errs, "\n"))
	}
	prog, ssapkgs := ssautil.AllPackages(pkgs, ssa.InstantiateGenerics|ssa.SanityCheckFunctions&0)
	prog.Build()
	return &Program{Prog: prog, Pkgs: pkgs, SSAPkgs: ssapkgs, LoadTime: time.Since(start), sizes: &types.StdSizes{WordSize: 8, MaxAlign: 8}}, nil
}

// FindPackage returns the SSA package with the given import path.
func (p *Program) FindPackage(path string) *ssa.Package {
	for _, sp := range p.Prog.AllPackages() {
		if sp.Pkg.Path() == path {
			return sp
		}
	}
	return nil
}

var defaultInitOK = []string{
	"io", "bytes", "strings", "strconv", "unicode", "unicode/utf8", "unicode/utf16", "sort", "bufio", "container/list",
	"math", "math/bits", "path", "path/filepath", "encoding/binary", "encoding/base64", "encoding/hex", "fmt", "net/textproto", "net/url",
	"golang.org/x/net/http2", "golang.org/x/net/http2/hpack", "golang.org/x/net/http/httpguts", "io/ioutil",
	"github.com/golang/snappy", "mime", "mime/multipart", "context", "time", "slices", "maps", "cmp",
	"internal/bytealg", "internal/stringslite", "internal/itoa", "hash/crc32", "html", "net/http/internal", "net/http/internal/ascii",
	"golang.org/x/net/idna", "vendor/golang.org/x/net/http/httpguts", "vendor/golang.org/x/net/idna",
	"internal/oserror", "regexp/syntax",
	"net/http", "net", "vendor/golang.org/x/net/http2/hpack", "vendor/golang.org/x/text/unicode/norm",
	"vendor/golang.org/x/text/unicode/bidi", "vendor/golang.org/x/text/secure/bidirule", "net/http/httputil", "net/http/httptrace",
}

// ExploreConfig describes one harness entry.
type ExploreConfig struct {
	PkgPath   string
	Entry     string
	Bounds    Bounds
	Workers   int
	Solver    string
	InitExtra []string          // additional packages whose initialisers run
	InitSkip  []string          // packages whose initialisers are skipped
	Models    map[string]string // intercepted function -> model function (full names)
	Known     map[string]bool
	MaxViol   int
	Verbose   bool
	Trace     bool
	SolverLog string
	FixedPrefix []decision
	ReplayTrace [][3]uint64 // engine replay: decisions (D, V, K) of a recorded path; only that path is run
	Params    map[string]int
	Watch     map[string]string
	Seed      int
	WitnessLabel string
}

func (p *Program) lookupFunc(full string) *ssa.Function {
	// "pkgpath.Func" or "(*pkgpath.T).Method" or "(pkgpath.T).Method"
	for fn := range ssautil.AllFunctions(p.Prog) {
		if fn.String() == full {
			return fn
		}
	}
	return nil
}

// Explore runs the entry over all feasible paths within the bounds.
func (p *Program) Explore(cfg ExploreConfig) (*Explorer, error) {
	pkg := p.FindPackage(cfg.PkgPath)
	if pkg == nil {
		return nil, fmt.Errorf("package %s not loaded", cfg.PkgPath)
	}
	entry := pkg.Func(cfg.Entry)
	if entry == nil {
		return nil, fmt.Errorf("function %s.%s not found", cfg.PkgPath, cfg.Entry)
	}
	debug.SetGCPercent(400)
	ex := &Explorer{Bounds: cfg.Bounds, Workers: cfg.Workers, Solver: cfg.Solver, Known: cfg.Known, MaxViol: cfg.MaxViol, Verbose: cfg.Verbose}
	if ex.Workers <= 0 {
		ex.Workers = 8
	}
	if ex.Solver == "" {
		ex.Solver = "z3"
	}
	ex.Params = cfg.Params
	ex.Watch = cfg.Watch
	ex.WitnessLabel = cfg.WitnessLabel
	ex.cond = sync.NewCond(&ex.mu)
	ex.TruncWhy = map[string]int{}
	ex.EngineMsgs = map[string]int{}
	ex.Reach = map[string]int{}
	ex.Funcs = map[string]bool{}
	ex.Intercepts = map[string]bool{}
	ex.Assumes = map[string]bool{}
	ex.NontrivSig = map[string]bool{}
	ex.models = map[string]*ssa.Function{}
	if len(cfg.Models) > 0 {
		all := ssautil.AllFunctions(p.Prog)
		byName := map[string]*ssa.Function{}
		for fn := range all {
			byName[fn.String()] = fn
		}
		for from, to := range cfg.Models {
			m := byName[to]
			if m == nil {
				return nil, fmt.Errorf("model function %s not found", to)
			}
			ex.models[from] = m
		}
	}

	initOK := map[string]bool{}
	for _, s := range defaultInitOK {
		initOK[s] = true
	}
	for _, s := range cfg.InitExtra {
		initOK[s] = true
	}
	for _, sp := range p.Prog.AllPackages() {
		if strings.HasPrefix(sp.Pkg.Path(), "github.com/google/martian/") {
			initOK[sp.Pkg.Path()] = true
		}
	}
	for _, s := range cfg.InitSkip {
		delete(initOK, s)
	}
	order := initOrder(pkg, initOK)

	if cfg.ReplayTrace != nil {
		var pre []decision
		for _, d := range cfg.ReplayTrace {
			pre = append(pre, decision{D: int32(d[0]), V: d[1], K: uint8(d[2])})
		}
		cfg.FixedPrefix = pre
		ex.Bounds.MaxPaths = 1
	}
	ex.push(workItem{prefix: cfg.FixedPrefix})
	var wg sync.WaitGroup
	for w := 0; w < ex.Workers; w++ {
		wg.Add(1)
		go func(w int) {
			defer wg.Done()
			solver, err := NewSolver(ex.Solver, ex.Bounds.SolverTimeout)
			if err != nil {
				ex.noteInconclusive("solver start: " + err.Error())
				return
			}
			if cfg.SolverLog != "" && w == 0 {
				f, _ := os.Create(cfg.SolverLog)
				solver.log = f
			}
			defer solver.Close()
			wi := p.newInterp(ex, initOK)
			for {
				it, ok := ex.pop()
				if !ok {
					break
				}
				p.runPath(wi, ex, solver, entry, order, it, cfg)
				ex.done()
			}
			ex.mu.Lock()
			ex.Queries += solver.Queries
			ex.SolveTime += solver.SolveTime
			ex.SolverErrs += solver.Errors
			ex.mu.Unlock()
		}(w)
	}
	wg.Wait()
	return ex, nil
}

// initOrder lists the whitelisted packages reachable from root in dependency order.
func initOrder(root *ssa.Package, ok map[string]bool) []*ssa.Package {
	var order []*ssa.Package
	seen := map[*types.Package]bool{}
	var visit func(tp *types.Package)
	visit = func(tp *types.Package) {
		if seen[tp] {
			return
		}
		seen[tp] = true
		for _, imp := range tp.Imports() {
			visit(imp)
		}
		if ok[tp.Path()] {
			if sp := root.Prog.Package(tp); sp != nil {
				order = append(order, sp)
			}
		}
	}
	visit(root.Pkg)
	return order
}

func (p *Program) newInterp(ex *Explorer, initOK map[string]bool) *interpreter {
	i := &interpreter{
		prog:       p.Prog,
		globals:    make(map[*ssa.Global]*value),
		sizes:      p.sizes,
		goroutines: 1,
		ex:         ex,
		extCache:   map[*ssa.Function]externalFn{},
		initOK:     initOK,
		sharedInit: map[string]bool{},
		regexps:    map[*value]*regexState{},
		extraMutable: map[string]bool{},
	}
	runtimePkg := i.prog.ImportedPackage("runtime")
	if runtimePkg == nil {
		panic("ssa.Program doesn't include runtime package")
	}
	i.runtimeErrorString = runtimePkg.Type("errorString").Object().Type()
	initReflect(i)
	return i
}

// mutablePkg reports whether a package's globals are re-initialised for every
// path. All other packages (whitelisted library packages) are initialised once
// per worker and treated as immutable afterwards.
func mutablePkg(path string) bool {
	return strings.HasPrefix(path, "github.com/google/martian/") || path == "crypto/rand"
}

// resetGlobals forgets the globals of mutable packages (they are re-created
// lazily as zero values) and runs the initialisers that are due.
func (i *interpreter) resetGlobals(order []*ssa.Package) {
	for g := range i.globals {
		if g.Pkg != nil && (mutablePkg(g.Pkg.Pkg.Path()) || i.extraMutable[g.Pkg.Pkg.Path()]) {
			delete(i.globals, g)
		}
	}
	for _, sp := range order {
		path := sp.Pkg.Path()
		if !mutablePkg(path) && !i.extraMutable[path] {
			if i.sharedInit[path] {
				continue
			}
			i.sharedInit[path] = true
		}
		if f := sp.Func("init"); f != nil {
			call(i, nil, token.NoPos, f, nil)
		}
	}
}

func (p *Program) runPath(i *interpreter, ex *Explorer, solver *Solver, entry *ssa.Function, order []*ssa.Package, it workItem, cfg ExploreConfig) {
	solver.NewPath()
	ctx := &pathCtx{ex: ex, solver: solver, prefix: it.prefix, nameCnt: map[string]int{}, reach: map[string]bool{}, knownAct: map[string]*Term{}, assumes: map[string]bool{}, held: map[heldKey]int{}, doms: map[*Term]*byteDom{}, fixed: map[uint64][]fixedTerm{}, codecs: map[*value]*codecState{}, tlsConns: map[*value]*tlsState{}, tlsOK: true, tlsProto: "", regexps: map[*value]*regexState{}}
	if it.model != nil {
		ctx.setModel(it.model)
	}
	if cfg.Trace {
		i.mode |= EnableTracing
	}
	i.ctx = ctx
	i.sched = newSched(i)
	var pa *pathAbort
	func() {
		defer func() {
			if r := recover(); r != nil {
				a := i.classifyPanic(r)
				pa = &a
			}
		}()
		i.resetGlobals(order)
		i.installStubs()
		ctx.steps = 0
		call(i, nil, token.NoPos, entry, nil)
		ctx.flushAsserts()
	}()
	if pa == nil && len(ctx.trace) < len(ctx.prefix) {
		pa = &pathAbort{"engine", "replay divergence: path ended before its decision prefix was consumed"}
	}
	if pa != nil && pa.kind == "killed" && i.sched.fail != nil {
		pa = i.sched.fail
	}
	i.sched.killAll()

	var sample map[string]uint64
	if pa == nil && len(ctx.inputs) > 0 {
		func() {
			defer func() { recover() }()
			ex.mu.Lock()
			need := len(ex.Samples) < 6
			ex.mu.Unlock()
			if need {
				ctx.ensureModel()
				sample = ctx.inputValues(ctx.model)
			}
		}()
	}

	ex.mu.Lock()
	defer ex.mu.Unlock()
	ex.Paths++
	ex.Decisions += len(ctx.trace)
	ex.SchedPts += i.sched.points
	ex.Oblig += ctx.oblig
	ex.Discharged += ctx.dischg
	for a := range ctx.assumes {
		ex.Assumes[a] = true
	}
	if ctx.assertsSeen > 0 {
		ex.Nontrivial++
	}
	switch {
	case pa == nil:
		ex.PathsOK++
		for l := range ctx.reach {
			ex.Reach[l]++
		}
		if sample != nil {
			ex.Samples = append(ex.Samples, sample)
		}
	case pa.kind == "infeasible":
		ex.Infeasible++
	case pa.kind == "violation":
		// recorded by addViolation
		ex.ViolPaths++
	case pa.kind == "truncated":
		ex.Truncated++
		ex.TruncWhy[pa.msg]++
	case pa.kind == "inconclusive":
		ex.Inconcl++
		ex.EngineMsgs["inconclusive: "+pa.msg]++
	default:
		ex.EngineErr++
		msg := pa.msg
		if len(msg) > 1500 {
			msg = msg[:1500]
		}
		ex.EngineMsgs[msg]++
	}
	if ex.Paths >= ex.Bounds.MaxPaths && !ex.stop {
		ex.stop = true
		ex.PathCapHit = true
		ex.cond.Broadcast()
	}
	if ex.Verbose && ex.Paths%500 == 0 {
		fmt.Fprintf(os.Stderr, "  ... %s queue=%d\n", ex.Summary(), len(ex.queue))
	}
}

type heldKey struct {
	g    int
	addr value
}

func (i *interpreter) lockEventImpl(kind string, addr value) {
	c := i.ctx
	g := i.sched.cur.id
	switch kind {
	case "L":
		c.held[heldKey{g, addr}] = 2
	case "RL":
		c.held[heldKey{g, addr}] = 1
	case "U", "RU":
		if _, ok := c.held[heldKey{g, addr}]; ok {
			delete(c.held, heldKey{g, addr})
		} else {
			for k := range c.held {
				if k.addr == addr {
					delete(c.held, k)
					break
				}
			}
		}
	}
}

func (c *pathCtx) safeInputs() (r map[string]uint64) {
	defer func() {
		if e := recover(); e != nil {
			r = map[string]uint64{}
		}
	}()
	c.ensureModel()
	return c.inputValues(c.model)
}

// watchField is a hook for the lock-discipline monitor (see lockset.go).
func (i *interpreter) watchField(fr *frame, instr *ssa.FieldAddr) {
	if i.ex == nil || i.ex.Watch == nil {
		return
	}
	i.watchFieldSlow(fr, instr)
}

func SortedKeys(m map[string]bool) []string { return sortedKeys(m) }

func SortedCounts(m map[string]int) []string {
	var r []string
	for k, v := range m {
		r = append(r, fmt.Sprintf("%s x%d", k, v))
	}
	sort.Strings(r)
	return r
}

// installStubs points library globals at engine-side implementations.
func (i *interpreter) installStubs() {
	vfp := i.prog.ImportedPackage(vfPkg)
	if vfp == nil {
		return
	}
	if rp := i.prog.ImportedPackage("crypto/rand"); rp != nil {
		if g, ok := rp.Members["Reader"].(*ssa.Global); ok {
			if rr := vfp.Type("RandReader"); rr != nil {
				cell := value(structure{})
				gc := value(iface{t: types.NewPointer(rr.Type()), v: &cell})
				i.globals[g] = &gc
			}
		}
	}
}
