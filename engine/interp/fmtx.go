package interp

// Engine formatter for fmt.Sprintf/Errorf/Fprintf on simple arguments, so that
// symbolic integers and strings can be formatted without executing fmt's
// reflection-driven code. Anything it does not understand falls through to the
// SSA body of the real function.

import (
	"fmt"
	"go/types"
	"strings"

	"golang.org/x/tools/go/ssa"
)

type fallthroughSSA struct{}

func init() {
	externals["fmt.Sprintf"] = extSprintf
	externals["fmt.Errorf"] = extErrorf
	externals["fmt.Fprintf"] = func(fr *frame, args []value) value {
		out, ok, _ := fr.sprintf(args[1], args[2].([]value))
		if !ok {
			return fallthroughSSA{}
		}
		w := args[0].(iface)
		if w.t == nil {
			return fallthroughSSA{}
		}
		m := fr.i.findMethod(w.t, "Write")
		res := call(fr.i, fr, 0, m, []value{w.v, append([]value(nil), out...)}).(tuple)
		return res
	}
}

// fmtArg renders one argument for verb; ok=false means "not simple".
func (fr *frame) fmtArg(verb byte, flags string, a value) ([]value, bool) {
	it, isIface := a.(iface)
	if !isIface {
		return nil, false
	}
	v := it.v
	conc := func(s string) ([]value, bool) { return strBytes(s), true }
	switch x := v.(type) {
	case string, sstring:
		switch verb {
		case 's', 'v':
			if flags != "" {
				return nil, false
			}
			return strBytes(x), true
		case 'q':
			if s, ok := x.(string); ok && flags == "" {
				return conc(fmt.Sprintf("%q", s))
			}
		}
		if fr.i.ctx.errText {
			// the text of an error: symbolic bytes are rendered with one representative value
			// each (see concValue) and the verb is applied natively
			bs := strBytes(x)
			b := make([]byte, len(bs))
			for i, e := range bs {
				c, ok := e.(uint8)
				if !ok {
					c = fr.concValue(e).(uint8)
				}
				b[i] = c
			}
			return conc(fmt.Sprintf("%"+flags+string(verb), string(b)))
		}
		return nil, false
	case symv:
		if x.k == types.Bool {
			if verb == 't' || verb == 'v' {
				if fr.i.ctx.branch(x.t) {
					return conc("true")
				}
				return conc("false")
			}
			return nil, false
		}
		if (verb == 'd' || verb == 'v') && flags == "" {
			return fr.symDecimal(x), true
		}
		// other verbs: concretise
		c := fr.concValue(x)
		return conc(fmt.Sprintf("%"+flags+string(verb), c))
	case bool, int, int8, int16, int32, int64, uint, uint8, uint16, uint32, uint64, uintptr, float32, float64:
		if _, named := it.t.(*types.Named); named && (verb == 'v' || verb == 's') {
			// may have a String method
			if fr.i.findMethod(it.t, "String") != nil || fr.i.findMethod(it.t, "Error") != nil {
				return fr.fmtMethod(it)
			}
		}
		return conc(fmt.Sprintf("%"+flags+string(verb), x))
	case []value:
		// []byte with %s / %x
		if sl, ok := it.t.Underlying().(*types.Slice); ok {
			if b, ok := sl.Elem().Underlying().(*types.Basic); ok && b.Kind() == types.Uint8 {
				switch verb {
				case 's':
					if flags == "" {
						return append([]value(nil), x...), true
					}
				case 'x':
					if flags == "" {
						bs := make([]byte, len(x))
						for i, e := range x {
							c, ok := e.(uint8)
							if !ok {
								c = fr.concValue(e).(uint8)
							}
							bs[i] = c
						}
						return conc(fmt.Sprintf("%x", bs))
					}
				}
			}
		}
		return nil, false
	}
	if it.t == nil {
		if verb == 'v' || verb == 's' {
			if verb == 'v' {
				return conc("<nil>")
			}
			return conc("%!s(<nil>)")
		}
		return nil, false
	}
	if verb == 'v' || verb == 's' || verb == 'w' {
		return fr.fmtMethod(it)
	}
	return nil, false
}

func (fr *frame) fmtMethod(it iface) ([]value, bool) {
	for _, name := range []string{"Error", "String"} {
		if m := fr.i.findMethod(it.t, name); m != nil && m.Signature.Params().Len() == 0 && m.Signature.Results().Len() == 1 {
			if p, ok := it.v.(*value); ok && p == nil {
				return strBytes("<nil>"), true
			}
			r := call(fr.i, fr, 0, m, []value{it.v})
			if isStr(r) {
				return strBytes(r), true
			}
		}
	}
	return nil, false
}

// symDecimal formats a symbolic integer in base 10, forking on the number of digits.
func (fr *frame) symDecimal(x symv) []value {
	c := fr.i.ctx
	w := x.t.w
	t := x.t
	neg := false
	if kindSigned(x.k) {
		if c.branch(mkCmp(opSlt, t, mkConst(w, 0))) {
			neg = true
			t = mkNeg(t)
		}
	}
	// number of digits
	nd := 1
	pow := uint64(10)
	maxDigits := 20
	switch w {
	case 8:
		maxDigits = 3
	case 16:
		maxDigits = 5
	case 32:
		maxDigits = 10
	}
	for nd < maxDigits {
		if c.branch(mkCmp(opUlt, t, mkConst(w, pow))) {
			break
		}
		nd++
		if nd < maxDigits {
			pow *= 10
		}
	}
	// t < 10^nd on this path: narrow the term so the divisions are cheap
	switch {
	case nd <= 2 && w > 8:
		t = mkExtract(t, 7, 0)
		w = 8
	case nd <= 4 && w > 16:
		t = mkExtract(t, 15, 0)
		w = 16
	case nd <= 9 && w > 32:
		t = mkExtract(t, 31, 0)
		w = 32
	}
	digits := make([]value, 0, nd+1)
	if neg {
		digits = append(digits, uint8('-'))
	}
	div := uint64(1)
	for i := 1; i < nd; i++ {
		div *= 10
	}
	for i := 0; i < nd; i++ {
		d := mkBin(opURem, mkBin(opUDiv, t, mkConst(w, div)), mkConst(w, 10))
		digits = append(digits, mkSym(types.Uint8, mkBin(opAdd, mkExtract(d, 7, 0), mkConst(8, '0'))))
		div /= 10
	}
	return digits
}

// sprintf returns the formatted bytes, or ok=false to fall through.
func (fr *frame) sprintf(format value, args []value) ([]value, bool, bool) {
	f, ok := format.(string)
	if !ok {
		return nil, false, false
	}
	var out []value
	ai := 0
	hasW := false
	for i := 0; i < len(f); i++ {
		ch := f[i]
		if ch != '%' {
			out = append(out, ch)
			continue
		}
		i++
		if i >= len(f) {
			return nil, false, false
		}
		j := i
		for j < len(f) && strings.IndexByte("+-# 0123456789.", f[j]) >= 0 {
			j++
		}
		if j >= len(f) {
			return nil, false, false
		}
		flags := f[i:j]
		verb := f[j]
		i = j
		if verb == '%' {
			out = append(out, uint8('%'))
			continue
		}
		if ai >= len(args) {
			return nil, false, false
		}
		if verb == 'w' {
			hasW = true
		}
		b, ok := fr.fmtArg(verb, flags, args[ai])
		if !ok {
			return nil, false, false
		}
		ai++
		out = append(out, b...)
	}
	if ai != len(args) {
		return nil, false, false
	}
	return out, true, hasW
}

func extSprintf(fr *frame, args []value) value {
	out, ok, _ := fr.sprintf(args[0], args[1].([]value))
	if !ok {
		return fallthroughSSA{}
	}
	return normStr(out)
}

func extErrorf(fr *frame, args []value) value {
	// decide before formatting: %w needs the real wrapError
	if f, ok := args[0].(string); !ok || strings.Contains(f, "%w") {
		return fallthroughSSA{}
	}
	fr.i.ctx.errText = true
	fr.i.noteAssumption("the text of errors built with fmt.Errorf shows one representative value of symbolic operands (the operand itself stays symbolic)")
	out, ok, _ := fr.sprintf(args[0], args[1].([]value))
	fr.i.ctx.errText = false
	if !ok {
		return fallthroughSSA{}
	}
	errorsPkg := fr.i.prog.ImportedPackage("errors")
	if errorsPkg == nil {
		return fallthroughSSA{}
	}
	return call(fr.i, fr, 0, errorsPkg.Func("New"), []value{normStr(out)})
}

// findMethod is LookupMethod without the panic for missing methods.
func (i *interpreter) findMethod(t types.Type, name string) *ssa.Function {
	sel := i.prog.MethodSets.MethodSet(t).Lookup(nil, name)
	if sel == nil {
		return nil
	}
	return i.prog.MethodValue(sel)
}
