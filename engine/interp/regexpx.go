package interp

// regexp intercepts. Compilation is recorded (pattern -> object); matching on
// concrete strings runs Go's real regexp natively inside the engine; matching
// on symbolic strings is supported for patterns of the form [class]+ (Split).

import (
	"fmt"
	"regexp"
	"strings"
)

type regexState struct {
	pattern string
	re      *regexp.Regexp
}

func (fr *frame) regexOf(p value) *regexState {
	st := fr.i.regexps[p.(*value)]
	if st == nil {
		panic("regexp object without state")
	}
	return st
}

func concStr(v value) (string, bool) {
	s, ok := v.(string)
	return s, ok
}

func init() {
	compile := func(must bool) externalFn {
		return func(fr *frame, args []value) value {
			pat, ok := concStr(args[0])
			if !ok {
				panic("regexp.Compile on a symbolic pattern")
			}
			re, err := regexp.Compile(pat)
			if err != nil {
				if must {
					panic(targetPanic{v: iface{t: fr.i.runtimeErrorString, v: "regexp: Compile(" + pat + "): " + err.Error()}})
				}
				return tuple{(*value)(nil), fr.newError(err.Error())}
			}
			cell := zero(fr.i.namedType("regexp", "Regexp"))
			p := &cell
			fr.i.regexps[p] = &regexState{pattern: pat, re: re}
			if must {
				return p
			}
			return tuple{p, nilError()}
		}
	}
	externals["regexp.MustCompile"] = compile(true)
	externals["regexp.Compile"] = compile(false)
	externals["(*regexp.Regexp).String"] = func(fr *frame, args []value) value { return fr.regexOf(args[0]).pattern }
	externals["(*regexp.Regexp).MatchString"] = func(fr *frame, args []value) value {
		st := fr.regexOf(args[0])
		s, ok := concStr(args[1])
		if !ok {
			panic("regexp MatchString on a symbolic string is not modelled: " + st.pattern)
		}
		return st.re.MatchString(s)
	}
	externals["(*regexp.Regexp).FindStringSubmatch"] = func(fr *frame, args []value) value {
		st := fr.regexOf(args[0])
		s, ok := concStr(args[1])
		if !ok {
			panic("regexp FindStringSubmatch on a symbolic string is not modelled: " + st.pattern)
		}
		m := st.re.FindStringSubmatch(s)
		if m == nil {
			return []value(nil)
		}
		r := make([]value, len(m))
		for i, x := range m {
			r[i] = x
		}
		return r
	}
	externals["(*regexp.Regexp).Split"] = func(fr *frame, args []value) value {
		st := fr.regexOf(args[0])
		n := int(fr.concInt(args[2]))
		if s, ok := concStr(args[1]); ok {
			parts := st.re.Split(s, n)
			if parts == nil {
				return []value(nil)
			}
			r := make([]value, len(parts))
			for i, x := range parts {
				r[i] = x
			}
			return r
		}
		// symbolic: only [class]+ with a literal class
		pat := st.pattern
		if !strings.HasPrefix(pat, "[") || !strings.HasSuffix(pat, "]+") || strings.ContainsAny(pat[1:len(pat)-2], "^-\\[]") {
			panic("regexp Split on a symbolic string is modelled only for [class]+ patterns, not " + pat)
		}
		class := pat[1 : len(pat)-2]
		b := strBytes(args[1])
		inClass := func(v value) bool {
			for i := 0; i < len(class); i++ {
				if byteEq(fr, v, class[i]) {
					return true
				}
			}
			return false
		}
		if n == 0 {
			return []value(nil)
		}
		// Semantics of Regexp.Split for a pattern that never matches the empty string.
		var out []value
		beg := 0
		i := 0
		for i < len(b) {
			if n > 0 && len(out) == n-1 {
				break
			}
			if !inClass(b[i]) {
				i++
				continue
			}
			j := i
			for j < len(b) && inClass(b[j]) {
				j++
			}
			out = append(out, normStr(append([]value(nil), b[beg:i]...)))
			beg = j
			i = j
		}
		out = append(out, normStr(append([]value(nil), b[beg:]...)))
		return out
	}
}

var _ = fmt.Sprint
