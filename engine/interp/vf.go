package interp

// Intrinsics for the harness facade package .../zzverif/vf.

import (
	"fmt"
	"go/token"
	"go/types"
)

const vfPkg = "github.com/google/martian/v3/zzverif/vf"

const (
	tokenADD = token.ADD
	tokenEQL = token.EQL
)

func argStr(v value) string {
	switch v := v.(type) {
	case string:
		return v
	case sstring:
		return toString(v)
	}
	return fmt.Sprint(v)
}

func registerVF() {
	scalar := func(k types.BasicKind) externalFn {
		return func(fr *frame, args []value) value {
			return fr.i.ctx.newVar(argStr(args[0]), k)
		}
	}
	for name, k := range map[string]types.BasicKind{
		"Bool": types.Bool, "Byte": types.Uint8, "Uint8": types.Uint8, "Int": types.Int, "Int8": types.Int8,
		"Int16": types.Int16, "Int32": types.Int32, "Int64": types.Int64, "Uint": types.Uint,
		"Uint16": types.Uint16, "Uint32": types.Uint32, "Uint64": types.Uint64,
	} {
		externals[vfPkg+"."+name] = scalar(k)
	}
	externals[vfPkg+".Bytes"] = func(fr *frame, args []value) value {
		n := int(fr.concInt(args[1]))
		r := make([]value, n)
		for j := range r {
			r[j] = fr.i.ctx.newVar(fmt.Sprintf("%s[%d]", argStr(args[0]), j), types.Uint8)
		}
		return r
	}
	externals[vfPkg+".String"] = func(fr *frame, args []value) value {
		n := int(fr.concInt(args[1]))
		r := make([]value, n)
		for j := range r {
			r[j] = fr.i.ctx.newVar(fmt.Sprintf("%s[%d]", argStr(args[0]), j), types.Uint8)
		}
		return normStr(r)
	}
	externals[vfPkg+".Choice"] = func(fr *frame, args []value) value {
		c := fr.i.ctx
		k := int(fr.concInt(args[1]))
		if k <= 1 {
			return 0
		}
		// a fresh variable constrained only to [0,k): every value is feasible,
		// so the choice needs no solver query
		v := c.newVar(argStr(args[0]), types.Int).(symv)
		idx := c.choose(k)
		c.addPC(mkCmp(opEq, v.t, mkConst(64, uint64(idx))))
		if c.model != nil && idx != 0 {
			m := make(Model, len(c.model)+1)
			for k, x := range c.model {
				m[k] = x
			}
			m[v.t.name] = uint64(idx)
			c.setModel(m)
		}
		return idx
	}
	externals[vfPkg+".Concrete"] = func(fr *frame, args []value) value {
		return fr.concValue(args[0])
	}
	externals[vfPkg+".Assume"] = func(fr *frame, args []value) value {
		t, _ := termOf(args[0])
		fr.i.ctx.assume(t)
		return nil
	}
	externals[vfPkg+".Assert"] = func(fr *frame, args []value) value {
		t, _ := termOf(args[0])
		fr.i.ctx.check(t, argStr(args[1]), fr.caller)
		return nil
	}
	externals[vfPkg+".Fail"] = func(fr *frame, args []value) value {
		fr.i.ctx.check(termFalse, argStr(args[0]), fr.caller)
		return nil
	}
	externals[vfPkg+".Reach"] = func(fr *frame, args []value) value {
		c := fr.i.ctx
		l := argStr(args[0])
		c.reach[l] = true
		if c.ex.WitnessLabel == l {
			c.check(termFalse, "witness:"+l, fr.caller)
		}
		return nil
	}
	externals[vfPkg+".Param"] = func(fr *frame, args []value) value {
		v, ok := fr.i.ctx.ex.Params[argStr(args[0])]
		if !ok {
			panic("vf.Param: no parameter " + argStr(args[0]))
		}
		return v
	}
	externals[vfPkg+".Known"] = func(fr *frame, args []value) value {
		c := fr.i.ctx
		id := argStr(args[0])
		if !c.ex.Known[id] {
			return nil
		}
		c.flushAsserts()
		t, _ := termOf(args[1])
		if old, ok := c.knownAct[id]; ok {
			t = mkOr(old, t)
		}
		c.knownAct[id] = t
		return nil
	}
	externals[vfPkg+".KnownClear"] = func(fr *frame, args []value) value {
		fr.i.ctx.flushAsserts()
		delete(fr.i.ctx.knownAct, argStr(args[0]))
		return nil
	}
	externals[vfPkg+".Event"] = func(fr *frame, args []value) value {
		c := fr.i.ctx
		if len(c.events) < 200 {
			c.events = append(c.events, toString(args[0]))
		}
		return nil
	}
	externals[vfPkg+".Symbolic"] = func(fr *frame, args []value) value { return true }
	externals[vfPkg+".Yield"] = func(fr *frame, args []value) value {
		fr.i.sched.yield()
		return nil
	}
	externals[vfPkg+".Quiesce"] = func(fr *frame, args []value) value {
		return fr.i.sched.quiesce()
	}
	externals[vfPkg+".Goroutines"] = func(fr *frame, args []value) value {
		n := 0
		for _, g := range fr.i.sched.gs {
			if !g.done {
				n++
			}
		}
		return n
	}
	externals[vfPkg+".BlockedDesc"] = func(fr *frame, args []value) value {
		return fr.i.sched.describe()
	}
	externals[vfPkg+".Assumption"] = func(fr *frame, args []value) value {
		c := fr.i.ctx
		c.assumes[argStr(args[0])] = true
		return nil
	}
	// IsConcrete reports whether a byte slice/string/scalar has no symbolic part (engine only).
	externals[vfPkg+".Dump"] = func(fr *frame, args []value) value {
		fmt.Println("vf.Dump:", toString(args[0]))
		return nil
	}
	externals[vfPkg+".WatchOn"] = func(fr *frame, args []value) value { fr.i.ctx.watchOn = true; return nil }
	externals[vfPkg+".WatchOff"] = func(fr *frame, args []value) value { fr.i.ctx.watchOn = false; return nil }
	externals[vfPkg+".SymbolicTime"] = func(fr *frame, args []value) value { fr.i.ctx.symTime = true; return nil }
	externals[vfPkg+".FixedSchedule"] = func(fr *frame, args []value) value {
		fr.i.ctx.fixedSched = fr.condBool(args[0])
		return nil
	}
	externals[vfPkg+".AdvanceClock"] = func(fr *frame, args []value) value {
		fr.i.ctx.clock += fr.concInt(args[0])
		return nil
	}
	// Watch/lockset support
	externals[vfPkg+".LocksHeld"] = func(fr *frame, args []value) value {
		return len(fr.i.ctx.held)
	}
	externals[vfPkg+".Holds"] = func(fr *frame, args []value) value {
		// Holds(mu *sync.Mutex | *sync.RWMutex) int: 0 not held, 1 read, 2 write
		p := args[0].(iface).v
		return fr.i.ctx.held[heldKey{fr.i.sched.cur.id, p}]
	}
}
