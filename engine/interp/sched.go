package interp

// Cooperative scheduler for interpreted goroutines, engine channels and the
// sync primitives. Exactly one interpreted goroutine runs at a time; control
// changes hands only at synchronisation operations.

import (
	"fmt"
	"go/types"
	"os"
	"strings"
	"sync"
	"time"
)

type gor struct {
	id     int
	resume chan bool
	ready  func() bool
	done   bool
	desc   string
	name   string
	quiescing bool
	qdepth    int
}

type sched struct {
	i      *interpreter
	gs     []*gor
	cur    *gor
	main   *gor
	wg     sync.WaitGroup
	fail   *pathAbort // set when a non-main goroutine ends the path
	failV  *Violation
	points int
	log    []string
	qseq   int
}

var schedDebug = os.Getenv("SYMGO_SCHEDLOG") != ""

func (s *sched) ev(format string, args ...interface{}) {
	if schedDebug {
		s.log = append(s.log, fmt.Sprintf(format, args...))
	}
}

func newSched(i *interpreter) *sched {
	s := &sched{i: i}
	m := &gor{id: 0, resume: make(chan bool), name: "main"}
	s.gs = []*gor{m}
	s.cur = m
	s.main = m
	return s
}

func (s *sched) runnable(exclude *gor) []*gor {
	var c []*gor
	for _, h := range s.gs {
		if h.done || h == exclude {
			continue
		}
		if h.ready == nil || h.ready() {
			c = append(c, h)
		}
	}
	return c
}

func (s *sched) describe() string {
	r := ""
	for _, h := range s.gs {
		if h.done {
			continue
		}
		st := "runnable"
		if h.ready != nil && !h.ready() {
			st = "blocked: " + h.desc
		}
		r += fmt.Sprintf("[g%d %s %s] ", h.id, h.name, st)
	}
	return r
}

// switchTo hands the baton from g to next and parks g (unless g is done).
func (s *sched) switchTo(g, next *gor) {
	if next == g {
		return
	}
	s.ev("switch g%d -> g%d", g.id, next.id)
	s.cur = next
	if next.done {
		panic(fmt.Sprintf("scheduler: switching to finished goroutine g%d %s from g%d %s", next.id, next.name, g.id, g.name))
	}
	next.resume <- true
	ok := <-g.resume
	s.ev("g%d resumed ok=%v", g.id, ok)
	if !ok {
		panic(pathAbort{"killed", ""})
	}
}

// failFrom ends the path from the running goroutine g.
func (s *sched) failFrom(g *gor, pa pathAbort) {
	s.ev("failFrom g%d %s %s", g.id, pa.kind, pa.msg)
	if g == s.main {
		panic(pa)
	}
	if s.fail == nil {
		s.fail = &pa
	}
	// wake main with a kill; main's top level sees s.fail
	s.cur = s.main
	s.main.resume <- false
	<-g.resume // await kill
	panic(pathAbort{"killed", ""})
}

// block parks the current goroutine until ready() holds.
func (s *sched) block(ready func() bool, desc string) {
	g := s.cur
	s.ev("block g%d %s", g.id, desc)
	ctx := s.i.ctx
	for !ready() {
		g.ready = ready
		g.desc = desc
		cands := s.runnable(g)
		if len(cands) == 0 {
			d := s.describe()
			g.ready = nil
			ctx.ex.addViolation(Violation{Kind: "deadlock", Label: "deadlock", Msg: d, Inputs: ctx.safeInputs(), Trace: append([]decision(nil), ctx.trace...), Events: append([]string(nil), ctx.events...)})
			s.failFrom(g, pathAbort{"violation", "deadlock: " + d})
		}
		s.points++
		idx := s.pick(len(cands))
		s.switchTo(g, cands[idx])
		g.ready = nil
	}
}

// yield is a scheduling point at a non-blocking synchronisation operation.
func (s *sched) yield() {
	ctx := s.i.ctx
	if ctx.ex.Bounds.Preempt < 0 || ctx.preempts >= ctx.ex.Bounds.Preempt {
		return
	}
	g := s.cur
	cands := s.runnable(g)
	if len(cands) == 0 {
		return
	}
	s.points++
	idx := ctx.choose(len(cands) + 1)
	if idx == 0 {
		return
	}
	ctx.preempts++
	s.switchTo(g, cands[idx-1])
}

// quiesce runs all other goroutines until none is runnable; returns the number
// of goroutines (other than the caller) that are still alive (parked).
func (s *sched) quiesce() int {
	g := s.cur
	// plain reports whether a non-quiescing goroutine other than x can run.
	plain := func(x *gor) bool {
		for _, h := range s.gs {
			if h.done || h == x || h == g || h.quiescing {
				continue // (g itself is waiting from now on)
			}
			if h.ready == nil || h.ready() {
				return true
			}
		}
		return false
	}
	s.qseq++
	g.qdepth = s.qseq
	if g.id == 0 {
		// The harness's main goroutine is always the outermost waiter, also when a preemption
		// let a hook inside another goroutine enter its own (nested) quiesce first.
		g.qdepth = 0
	}
	// others reports whether anything else can make progress before g should
	// continue: a non-quiescing goroutine, or a goroutine that entered quiesce
	// after g (nested) and whose own wait is over.
	others := func() bool {
		if plain(g) {
			return true
		}
		for _, h := range s.gs {
			if !h.done && h != g && h.quiescing && h.qdepth > g.qdepth && !plain(h) {
				return true
			}
		}
		return false
	}
	for others() {
		var cands []*gor
		for _, h := range s.gs {
			if h.done || h == g {
				continue
			}
			if h.quiescing {
				if h.qdepth > g.qdepth && !plain(h) {
					cands = append(cands, h)
				}
				continue
			}
			if h.ready == nil || h.ready() {
				cands = append(cands, h)
			}
		}
		s.points++
		idx := s.pick(len(cands))
		g.quiescing = true
		g.ready = func() bool { return !others() }
		g.desc = "quiesce"
		s.switchTo(g, cands[idx])
		g.ready = nil
		g.quiescing = false
	}
	n := 0
	for _, h := range s.gs {
		if !h.done && h != g {
			n++
		}
	}
	return n
}

func (s *sched) spawn(fn value, args []value, name string) {
	g := &gor{id: len(s.gs), resume: make(chan bool), name: name}
	s.gs = append(s.gs, g)
	s.wg.Add(1)
	go func() {
		defer s.wg.Done()
		if ok := <-g.resume; !ok {
			g.done = true
			return
		}
		pa := s.runG(func() { call(s.i, nil, 0, fn, args) })
		g.done = true
		if pa != nil {
			if pa.kind != "killed" {
				s.endFrom(*pa)
			}
			return
		}
		// normal exit: hand the baton on
		cands := s.runnable(g)
		if len(cands) == 0 {
			d := s.describe()
			ctx := s.i.ctx
			ctx.ex.addViolation(Violation{Kind: "deadlock", Label: "deadlock", Msg: d, Inputs: ctx.safeInputs(), Trace: append([]decision(nil), ctx.trace...), Events: append([]string(nil), ctx.events...)})
			s.endFrom(pathAbort{"violation", "deadlock: " + d})
			return
		}
		idx := 0
		if pa := s.runG(func() { s.points++; idx = s.pick(len(cands)) }); pa != nil {
			s.endFrom(*pa)
			return
		}
		s.ev("exit g%d -> g%d", g.id, cands[idx].id)
		s.cur = cands[idx]
		cands[idx].resume <- true
	}()
}

// runG runs f, converting any panic into a pathAbort.
func (s *sched) runG(f func()) (pa *pathAbort) {
	defer func() {
		if r := recover(); r != nil {
			if a, ok := r.(pathAbort); ok {
				pa = &a
				return
			}
			a := s.i.classifyPanic(r)
			pa = &a
		}
	}()
	f()
	return nil
}

// endFrom ends the path from a goroutine that has finished running.
func (s *sched) endFrom(pa pathAbort) {
	s.ev("endFrom %s %s", pa.kind, pa.msg)
	if s.fail == nil {
		s.fail = &pa
	}
	s.cur = s.main
	s.main.resume <- false
}

// killAll terminates all parked goroutines at the end of a path.
func (s *sched) killAll() {
	for _, g := range s.gs {
		if g == s.main || g.done {
			continue
		}
		s.ev("kill g%d", g.id)
		select {
		case g.resume <- false:
			g.done = true
		case <-time.After(30 * time.Second):
			fmt.Fprintf(os.Stderr, "SCHEDULER STUCK killing g%d %s\n%s\n", g.id, g.name, strings.Join(s.log, "\n"))
			os.Exit(3)
		}
	}
	s.wg.Wait()
}

// ---------------------------------------------------------------------------
// Channels

type recvWaiter struct {
	v    value
	ok   bool
	done bool
}

type sendWaiter struct {
	v      value
	done   bool
	closed bool
}

type schan struct {
	buf    []value
	cap    int
	closed bool
	recvq  []*recvWaiter
	sendq  []*sendWaiter
	elem   types.Type
}

func (s *sched) chanSend(ch *schan, v value) {
	if ch == nil {
		s.block(func() bool { return false }, "send on nil channel")
	}
	s.yield()
	if ch.closed {
		panic(rtErr("send on closed channel"))
	}
	if len(ch.recvq) > 0 {
		rw := ch.recvq[0]
		ch.recvq = ch.recvq[1:]
		rw.v, rw.ok, rw.done = v, true, true
		return
	}
	if len(ch.buf) < ch.cap {
		ch.buf = append(ch.buf, v)
		return
	}
	sw := &sendWaiter{v: v}
	ch.sendq = append(ch.sendq, sw)
	s.block(func() bool { return sw.done || sw.closed }, "chan send")
	if !sw.done && sw.closed {
		panic(rtErr("send on closed channel"))
	}
}

func (ch *schan) tryRecv() (value, bool, bool) {
	if len(ch.buf) > 0 {
		v := ch.buf[0]
		ch.buf = ch.buf[1:]
		if len(ch.sendq) > 0 {
			sw := ch.sendq[0]
			ch.sendq = ch.sendq[1:]
			ch.buf = append(ch.buf, sw.v)
			sw.done = true
		}
		return v, true, true
	}
	if len(ch.sendq) > 0 {
		sw := ch.sendq[0]
		ch.sendq = ch.sendq[1:]
		sw.done = true
		return sw.v, true, true
	}
	if ch.closed {
		return zero(ch.elem), false, true
	}
	return nil, false, false
}

func (s *sched) chanRecv(ch *schan) (value, bool) {
	if ch == nil {
		s.block(func() bool { return false }, "receive from nil channel")
	}
	s.yield()
	if v, ok, got := ch.tryRecv(); got {
		return v, ok
	}
	rw := &recvWaiter{}
	ch.recvq = append(ch.recvq, rw)
	s.block(func() bool { return rw.done }, "chan receive")
	return rw.v, rw.ok
}

func (s *sched) chanClose(ch *schan) {
	if ch == nil {
		panic(rtErr("close of nil channel"))
	}
	if ch.closed {
		panic(rtErr("close of closed channel"))
	}
	s.yield()
	ch.closed = true
	for _, rw := range ch.recvq {
		rw.v, rw.ok, rw.done = zero(ch.elem), false, true
	}
	ch.recvq = nil
	for _, sw := range ch.sendq {
		sw.closed = true
	}
	ch.sendq = nil
}

type selCase struct {
	ch   *schan
	send bool
	v    value
}

func (c selCase) ready() bool {
	if c.ch == nil {
		return false
	}
	if c.send {
		return c.ch.closed || len(c.ch.recvq) > 0 || len(c.ch.buf) < c.ch.cap
	}
	return len(c.ch.buf) > 0 || len(c.ch.sendq) > 0 || c.ch.closed
}

// doSelect returns (chosen index or -1 for default, received value, recvOk).
func (s *sched) doSelect(cases []selCase, blocking bool) (int, value, bool) {
	s.yield()
	for {
		var rdy []int
		for i, c := range cases {
			if c.ready() {
				rdy = append(rdy, i)
			}
		}
		if len(rdy) > 0 {
			k := rdy[s.pick(len(rdy))]
			c := cases[k]
			if c.send {
				if c.ch.closed {
					panic(rtErr("send on closed channel"))
				}
				if len(c.ch.recvq) > 0 {
					rw := c.ch.recvq[0]
					c.ch.recvq = c.ch.recvq[1:]
					rw.v, rw.ok, rw.done = c.v, true, true
				} else {
					c.ch.buf = append(c.ch.buf, c.v)
				}
				return k, nil, false
			}
			v, ok, _ := c.ch.tryRecv()
			return k, v, ok
		}
		if !blocking {
			return -1, nil, false
		}
		s.block(func() bool {
			for _, c := range cases {
				if c.ready() {
					return true
				}
			}
			return false
		}, "select")
	}
}

// pick resolves a scheduling choice: every alternative is explored unless the
// bounds ask for the deterministic schedule (first candidate).
func (s *sched) pick(n int) int {
	if n <= 1 {
		return 0
	}
	if s.i.ctx.ex.Bounds.FixedSchedule || s.i.ctx.fixedSched {
		return 0
	}
	return s.i.ctx.choose(n)
}
