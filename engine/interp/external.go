// Copyright 2013 The Go Authors. All rights reserved.
// Use of this source code is governed by a BSD-style
// license that can be found in the LICENSE file.

package interp

// Intercepts: functions that cannot be interpreted from SSA (assembly,
// unsafe, runtime, reflection) or that are replaced by engine intrinsics
// (synchronisation, the vf harness facade).

import (
	"fmt"
	"go/types"
	"math"
	"os"
	"sort"
	"strings"

	"golang.org/x/tools/go/ssa"
)

type externalFn func(fr *frame, args []value) value

// Key strings are from Function.String().
var externals = make(map[string]externalFn)

// prefix rules: any function whose String() starts with the key.
var externalPrefixes = map[string]externalFn{
	"github.com/google/martian/v3/log.": noop,
}

func noop(fr *frame, args []value) value { return nil }

func init() {
	for k, v := range map[string]externalFn{
		"(reflect.Value).Bool":         ext۰reflect۰Value۰Bool,
		"(reflect.Value).CanAddr":      ext۰reflect۰Value۰CanAddr,
		"(reflect.Value).CanInterface": ext۰reflect۰Value۰CanInterface,
		"(reflect.Value).Elem":         ext۰reflect۰Value۰Elem,
		"(reflect.Value).Field":        ext۰reflect۰Value۰Field,
		"(reflect.Value).Float":        ext۰reflect۰Value۰Float,
		"(reflect.Value).Index":        ext۰reflect۰Value۰Index,
		"(reflect.Value).Int":          ext۰reflect۰Value۰Int,
		"(reflect.Value).Interface":    ext۰reflect۰Value۰Interface,
		"(reflect.Value).IsNil":        ext۰reflect۰Value۰IsNil,
		"(reflect.Value).IsValid":      ext۰reflect۰Value۰IsValid,
		"(reflect.Value).Kind":         ext۰reflect۰Value۰Kind,
		"(reflect.Value).Len":          ext۰reflect۰Value۰Len,
		"(reflect.Value).MapIndex":     ext۰reflect۰Value۰MapIndex,
		"(reflect.Value).MapKeys":      ext۰reflect۰Value۰MapKeys,
		"(reflect.Value).NumField":     ext۰reflect۰Value۰NumField,
		"(reflect.Value).NumMethod":    ext۰reflect۰Value۰NumMethod,
		"(reflect.Value).Pointer":      ext۰reflect۰Value۰Pointer,
		"(reflect.Value).Set":          ext۰reflect۰Value۰Set,
		"(reflect.Value).String":       ext۰reflect۰Value۰String,
		"(reflect.Value).Type":         ext۰reflect۰Value۰Type,
		"(reflect.Value).Uint":         ext۰reflect۰Value۰Uint,
		"(reflect.error).Error":        ext۰reflect۰error۰Error,
		"(reflect.rtype).Bits":         ext۰reflect۰rtype۰Bits,
		"(reflect.rtype).Elem":         ext۰reflect۰rtype۰Elem,
		"(reflect.rtype).Field":        ext۰reflect۰rtype۰Field,
		"(reflect.rtype).In":           ext۰reflect۰rtype۰In,
		"(reflect.rtype).Kind":         ext۰reflect۰rtype۰Kind,
		"(reflect.rtype).NumField":     ext۰reflect۰rtype۰NumField,
		"(reflect.rtype).NumIn":        ext۰reflect۰rtype۰NumIn,
		"(reflect.rtype).NumMethod":    ext۰reflect۰rtype۰NumMethod,
		"(reflect.rtype).NumOut":       ext۰reflect۰rtype۰NumOut,
		"(reflect.rtype).Out":          ext۰reflect۰rtype۰Out,
		"(reflect.rtype).Size":         ext۰reflect۰rtype۰Size,
		"(reflect.rtype).String":       ext۰reflect۰rtype۰String,
		"reflect.New":                  ext۰reflect۰New,
		"reflect.SliceOf":              ext۰reflect۰SliceOf,
		"reflect.TypeOf":               ext۰reflect۰TypeOf,
		"reflect.ValueOf":              ext۰reflect۰ValueOf,
		"reflect.Zero":                 ext۰reflect۰Zero,

		"math.Abs":             func(fr *frame, a []value) value { return math.Abs(a[0].(float64)) },
		"math.Float32bits":     func(fr *frame, a []value) value { return math.Float32bits(a[0].(float32)) },
		"math.Float32frombits": func(fr *frame, a []value) value { return math.Float32frombits(a[0].(uint32)) },
		"math.Float64bits":     func(fr *frame, a []value) value { return math.Float64bits(a[0].(float64)) },
		"math.Float64frombits": func(fr *frame, a []value) value { return math.Float64frombits(a[0].(uint64)) },
		"math.Inf":             func(fr *frame, a []value) value { return math.Inf(a[0].(int)) },
		"math.IsNaN":           func(fr *frame, a []value) value { return math.IsNaN(a[0].(float64)) },
		"math.NaN":             func(fr *frame, a []value) value { return math.NaN() },
		"math.Sqrt":            func(fr *frame, a []value) value { return math.Sqrt(a[0].(float64)) },
		"math.Floor":           func(fr *frame, a []value) value { return math.Floor(a[0].(float64)) },
		"math.Ceil":            func(fr *frame, a []value) value { return math.Ceil(a[0].(float64)) },
		"math.Trunc":           func(fr *frame, a []value) value { return math.Trunc(a[0].(float64)) },
		"math.Log":             func(fr *frame, a []value) value { return math.Log(a[0].(float64)) },
		"math.Exp":             func(fr *frame, a []value) value { return math.Exp(a[0].(float64)) },

		"os.Exit":            func(fr *frame, a []value) value { panic(exitPanic(asInt64(a[0]))) },
		"os.Getenv":          func(fr *frame, a []value) value { return "" },
		"runtime.GC":         noop,
		"runtime.Gosched":    extYield,
		"runtime.GOMAXPROCS": func(fr *frame, a []value) value { return 1 },
		"runtime.NumCPU":     func(fr *frame, a []value) value { return 1 },
		"runtime.KeepAlive":  noop,
		"runtime.SetFinalizer": noop,
		"runtime.Goexit": func(fr *frame, a []value) value {
			panic(fmt.Sprintf("runtime.Goexit unsupported"))
		},

		"internal/abi.NoEscape":   func(fr *frame, a []value) value { return a[0] },
		"internal/abi.FuncPCABI0": func(fr *frame, a []value) value { return uintptr(0) },
		"(*internal/godebug.Setting).Value": func(fr *frame, a []value) value { return "" },
		"(*internal/godebug.Setting).IncNonDefault": noop,
		"internal/race.Acquire":     noop,
		"internal/race.Release":     noop,
		"internal/race.ReleaseMerge": noop,
		"internal/race.Enable":      noop,
		"internal/race.Disable":     noop,
		"internal/race.Read":        noop,
		"internal/race.Write":       noop,
		"internal/race.ReadRange":   noop,
		"internal/race.WriteRange":  noop,
		"internal/race.Errors":      func(fr *frame, a []value) value { return 0 },

		"(*strings.Builder).copyCheck": noop,
		"internal/stringslite.Clone":   func(fr *frame, a []value) value { return a[0] },
		"strings.Clone":                func(fr *frame, a []value) value { return a[0] },
		"bytes.Clone": func(fr *frame, a []value) value {
			if a[0].([]value) == nil {
				return []value(nil)
			}
			return append([]value{}, a[0].([]value)...)
		},

		// internal/bytealg
		"internal/bytealg.MakeNoZero":      extMakeNoZero,
		"internal/bytealg.IndexByte":       extIndexByte,
		"internal/bytealg.IndexByteString": extIndexByte,
		"internal/bytealg.Count":           extCountByte,
		"internal/bytealg.CountString":     extCountByte,
		"internal/bytealg.Equal":           extBytesEqual,
		"internal/bytealg.Compare":         extCompare,
		"internal/bytealg.Index":           extIndex,
		"internal/bytealg.IndexString":     extIndex,
		"internal/bytealg.Cutover":         func(fr *frame, a []value) value { return 1 << 30 },
		"internal/bytealg.LastIndexByte":       extLastIndexByte,
		"internal/bytealg.LastIndexByteString": extLastIndexByte,
		"internal/stringslite.Index": extIndex,
		"internal/stringslite.IndexByte": extIndexByte,
		"bytes.Equal":    extBytesEqual,
		"bytes.Compare":  extCompare,
		"strings.Compare": extCompare,
		"internal/bytealg.init#1": noop,

		// sync
		"(*sync.Mutex).Lock":      extMutexLock,
		"(*sync.Mutex).Unlock":    extMutexUnlock,
		"(*sync.Mutex).TryLock":   extMutexTryLock,
		"(*sync.RWMutex).Lock":    extRWLock,
		"(*sync.RWMutex).Unlock":  extRWUnlock,
		"(*sync.RWMutex).RLock":   extRWRLock,
		"(*sync.RWMutex).RUnlock": extRWRUnlock,
		"(*sync.WaitGroup).Add":   extWGAdd,
		"(*sync.WaitGroup).Done":  func(fr *frame, a []value) value { return extWGAdd(fr, []value{a[0], -1}) },
		"(*sync.WaitGroup).Wait":  extWGWait,
		"(*sync.Once).Do":         extOnceDo,
		"(*sync.Once).doSlow":     extOnceDo,
		"(*sync.Pool).Get":        extPoolGet,
		"(*sync.Pool).Put":        noop,
		"(*sync.Map).Load":        extSyncMapLoad,
		"(*sync.Map).Store":       extSyncMapStore,
		"(*sync.Map).LoadOrStore": extSyncMapLoadOrStore,
		"(*sync.Map).Delete":      extSyncMapDelete,
		"(*sync.Map).LoadAndDelete": extSyncMapLoadAndDelete,
		"(*sync.Map).Range":       extSyncMapRange,
		"sync.runtime_registerPoolCleanup": noop,
		"sync.runtime_procPin": func(fr *frame, a []value) value { return 0 },
		"sync.runtime_procUnpin": noop,
		"sync.throw":  func(fr *frame, a []value) value { panic(rtErr("sync: " + toString(a[0]))) },
		"sync.fatal":  func(fr *frame, a []value) value { panic(rtErr("sync: " + toString(a[0]))) },

		// sync/atomic
		"sync/atomic.LoadInt32":   extAtomicLoad,
		"sync/atomic.LoadInt64":   extAtomicLoad,
		"sync/atomic.LoadUint32":  extAtomicLoad,
		"sync/atomic.LoadUint64":  extAtomicLoad,
		"sync/atomic.LoadUintptr": extAtomicLoad,
		"sync/atomic.LoadPointer": extAtomicLoad,
		"sync/atomic.StoreInt32":   extAtomicStore,
		"sync/atomic.StoreInt64":   extAtomicStore,
		"sync/atomic.StoreUint32":  extAtomicStore,
		"sync/atomic.StoreUint64":  extAtomicStore,
		"sync/atomic.StoreUintptr": extAtomicStore,
		"sync/atomic.StorePointer": extAtomicStore,
		"sync/atomic.AddInt32":   extAtomicAdd,
		"sync/atomic.AddInt64":   extAtomicAdd,
		"sync/atomic.AddUint32":  extAtomicAdd,
		"sync/atomic.AddUint64":  extAtomicAdd,
		"sync/atomic.AddUintptr": extAtomicAdd,
		"sync/atomic.SwapInt32":  extAtomicSwap,
		"sync/atomic.SwapInt64":  extAtomicSwap,
		"sync/atomic.SwapUint32": extAtomicSwap,
		"sync/atomic.SwapUint64": extAtomicSwap,
		"sync/atomic.SwapPointer": extAtomicSwap,
		"sync/atomic.CompareAndSwapInt32":  extAtomicCAS,
		"sync/atomic.CompareAndSwapInt64":  extAtomicCAS,
		"sync/atomic.CompareAndSwapUint32": extAtomicCAS,
		"sync/atomic.CompareAndSwapUint64": extAtomicCAS,
		"sync/atomic.CompareAndSwapPointer": extAtomicCAS,
		"(*sync/atomic.Value).Load":  extAtomicValueLoad,
		"(*sync/atomic.Value).Store": extAtomicValueStore,
		"(*sync/atomic.Pointer[T]).Load":  extAtomicPtrLoad,
		"(*sync/atomic.Pointer[T]).Store": extAtomicPtrStore,
		"(*sync/atomic.Pointer[T]).Swap": extAtomicPtrSwap,
		"(*sync/atomic.Pointer[T]).CompareAndSwap": extAtomicPtrCAS,

		// sort (reflection-based swapper)
		"sort.Slice":       extSortSlice,
		"sort.SliceStable": extSortSlice,

		// errors
		"errors.Is": extErrorsIs,
		"errors.As": extErrorsAs,

		// time
		"time.Sleep": extYield,
		"time.initLocal": noop,
		"time.NewTicker": func(fr *frame, a []value) value {
			// a ticker that never fires inside the engine (time does not pass by itself)
			cell := zero(fr.i.namedType("time", "Ticker"))
			cell.(structure)[0] = &schan{cap: 1, elem: fr.i.namedType("time", "Time")}
			return &cell
		},
		"(*time.Ticker).Stop":  noop,
		"(*time.Ticker).Reset": noop,
		"time.NewTimer": func(fr *frame, a []value) value {
			cell := zero(fr.i.namedType("time", "Timer"))
			cell.(structure)[0] = &schan{cap: 1, elem: fr.i.namedType("time", "Time")}
			return &cell
		},
		"(*time.Timer).Stop":  func(fr *frame, a []value) value { return true },
		"(*time.Timer).Reset": func(fr *frame, a []value) value { return true },
		"time.After": func(fr *frame, a []value) value {
			return &schan{cap: 1, elem: fr.i.namedType("time", "Time")}
		},
		"time.AfterFunc": func(fr *frame, a []value) value {
			cell := zero(fr.i.namedType("time", "Timer"))
			return &cell
		},
		"time.now":   extTimeNow,
		"time.runtimeNano": func(fr *frame, a []value) value { return int64(0) },

		// unicode/utf8 on strings with symbolic bytes falls through to SSA
	} {
		externals[k] = v
	}
	registerVF()
}

// linknames maps body-less declarations to the function the linker binds them to.
var linknames = map[string][2]string{
	"mime/multipart.readMIMEHeader": {"net/textproto", "readMIMEHeader"},
}

func extYield(fr *frame, args []value) value {
	fr.i.sched.yield()
	return nil
}

// resolveExternal decides whether fn is intercepted.
func (i *interpreter) resolveExternal(fn *ssa.Function) externalFn {
	if fn.Synthetic == "package initializer" {
		path := fn.Pkg.Pkg.Path()
		if !i.initOK[path] {
			return noop
		}
		return nil
	}
	name := fn.String()
	if i.ex != nil {
		if m := i.ex.models[name]; m != nil {
			i.noteIntercept(name + " -> " + m.String())
			return func(fr *frame, args []value) value {
				return callSSA(fr.i, fr.caller, 0, m, args, nil)
			}
		}
	}
	if ext := externals[name]; ext != nil {
		i.noteIntercept(name)
		return ext
	}
	if o := fn.Origin(); o != nil {
		if ext := externals[o.String()]; ext != nil {
			i.noteIntercept(o.String())
			return ext
		}
	}
	for p, ext := range externalPrefixes {
		if strings.HasPrefix(name, p) {
			i.noteIntercept(p + "*")
			return ext
		}
	}
	if i.ex != nil {
		if m := i.ex.models[name]; m != nil {
			i.noteIntercept(name + " -> " + m.String())
			return func(fr *frame, args []value) value {
				return callSSA(fr.i, fr.caller, 0, m, args, nil)
			}
		}
	}
	if fn.Blocks == nil {
		// a declaration bound to another package's function with go:linkname
		if ln, ok := linknames[name]; ok {
			if pkg := i.prog.ImportedPackage(ln[0]); pkg != nil {
				if t := pkg.Func(ln[1]); t != nil && t.Blocks != nil {
					i.noteIntercept(name + " -> " + t.String() + " (linkname)")
					return func(fr *frame, args []value) value {
						return callSSA(fr.i, fr.caller, 0, t, args, nil)
					}
				}
			}
		}
		return func(fr *frame, args []value) value {
			panic("no code for function: " + name)
		}
	}
	if i.ex != nil && fn.Pkg != nil && i.ex.Funcs != nil {
		path := fn.Pkg.Pkg.Path()
		if strings.HasPrefix(path, "github.com/google/martian/") && !strings.Contains(path, "/zzverif") {
			i.ex.mu.Lock()
			i.ex.Funcs[name] = true
			i.ex.mu.Unlock()
		}
	}
	return nil
}

func (i *interpreter) noteIntercept(name string) {
	if i.ex == nil {
		return
	}
	i.ex.mu.Lock()
	if i.ex.Intercepts == nil {
		i.ex.Intercepts = map[string]bool{}
	}
	i.ex.Intercepts[name] = true
	i.ex.mu.Unlock()
}

// ---------------------------------------------------------------------------
// bytealg

func bytesOf(x value) []value {
	switch x := x.(type) {
	case []value:
		return x
	case string, sstring:
		return strBytes(x)
	}
	panic(fmt.Sprintf("bytesOf: %T", x))
}

func extMakeNoZero(fr *frame, args []value) value {
	n := fr.concInt(args[0])
	s := make([]value, n)
	for i := range s {
		s[i] = uint8(0)
	}
	return s
}

func byteEq(fr *frame, a, b value) bool {
	if ca, ok := a.(uint8); ok {
		if cb, ok := b.(uint8); ok {
			return ca == cb
		}
	}
	return fr.i.ctx.branch(mkCmp(opEq, byteTerm(a), byteTerm(b)))
}

func extIndexByte(fr *frame, args []value) value {
	b := bytesOf(args[0])
	for i, e := range b {
		if byteEq(fr, e, args[1]) {
			return i
		}
	}
	return -1
}

func extLastIndexByte(fr *frame, args []value) value {
	b := bytesOf(args[0])
	for i := len(b) - 1; i >= 0; i-- {
		if byteEq(fr, b[i], args[1]) {
			return i
		}
	}
	return -1
}

func extCountByte(fr *frame, args []value) value {
	b := bytesOf(args[0])
	n := 0
	for _, e := range b {
		if byteEq(fr, e, args[1]) {
			n++
		}
	}
	return n
}

func extBytesEqual(fr *frame, args []value) value {
	a, b := bytesOf(args[0]), bytesOf(args[1])
	if len(a) != len(b) {
		return false
	}
	r := termTrue
	for i := len(a) - 1; i >= 0; i-- {
		r = mkAnd(mkCmp(opEq, byteTerm(a[i]), byteTerm(b[i])), r)
	}
	return mkSym(types.Bool, r)
}

func extCompare(fr *frame, args []value) value {
	a, b := bytesOf(args[0]), bytesOf(args[1])
	n := len(a)
	if len(b) < n {
		n = len(b)
	}
	for i := 0; i < n; i++ {
		if byteEq(fr, a[i], b[i]) {
			continue
		}
		if fr.i.ctx.branch(mkCmp(opUlt, byteTerm(a[i]), byteTerm(b[i]))) {
			return -1
		}
		return 1
	}
	switch {
	case len(a) < len(b):
		return -1
	case len(a) > len(b):
		return 1
	}
	return 0
}

func extIndex(fr *frame, args []value) value {
	a, b := bytesOf(args[0]), bytesOf(args[1])
	if len(b) == 0 {
		return 0
	}
	for i := 0; i+len(b) <= len(a); i++ {
		r := termTrue
		for j := len(b) - 1; j >= 0; j-- {
			r = mkAnd(mkCmp(opEq, byteTerm(a[i+j]), byteTerm(b[j])), r)
		}
		if fr.i.ctx.branch(r) {
			return i
		}
	}
	return -1
}

// ---------------------------------------------------------------------------
// sync

func structOf(p value) structure {
	a := p.(*value)
	if a == nil {
		panic(rtErr("invalid memory address or nil pointer dereference"))
	}
	return (*a).(structure)
}

func (i *interpreter) lockEvent(kind string, addr value) {
	i.lockEventImpl(kind, addr)
}

func extMutexLock(fr *frame, args []value) value {
	m := structOf(args[0])
	fr.i.sched.yield()
	if m[0].(int32) != 0 {
		fr.i.sched.block(func() bool { return m[0].(int32) == 0 }, "sync.Mutex.Lock")
	}
	m[0] = int32(1)
	fr.i.lockEvent("L", args[0])
	return nil
}

func extMutexTryLock(fr *frame, args []value) value {
	m := structOf(args[0])
	if m[0].(int32) != 0 {
		return false
	}
	m[0] = int32(1)
	fr.i.lockEvent("L", args[0])
	return true
}

func extMutexUnlock(fr *frame, args []value) value {
	m := structOf(args[0])
	if m[0].(int32) == 0 {
		panic(rtErr("sync: unlock of unlocked mutex"))
	}
	m[0] = int32(0)
	fr.i.lockEvent("U", args[0])
	fr.i.sched.yield()
	return nil
}

// RWMutex: structure{w Mutex, writerSem, readerSem uint32, readerCount atomic.Int32, readerWait atomic.Int32}
func rwParts(p value) (w structure, readers *value) {
	m := structOf(p)
	w = m[0].(structure)
	rc := m[3].(structure)
	return w, &rc[len(rc)-1]
}

func extRWLock(fr *frame, args []value) value {
	w, rc := rwParts(args[0])
	fr.i.sched.yield()
	free := func() bool { return w[0].(int32) == 0 && (*rc).(int32) == 0 }
	if !free() {
		fr.i.sched.block(free, "sync.RWMutex.Lock")
	}
	w[0] = int32(1)
	fr.i.lockEvent("L", args[0])
	return nil
}

func extRWUnlock(fr *frame, args []value) value {
	w, _ := rwParts(args[0])
	if w[0].(int32) == 0 {
		panic(rtErr("sync: Unlock of unlocked RWMutex"))
	}
	w[0] = int32(0)
	fr.i.lockEvent("U", args[0])
	fr.i.sched.yield()
	return nil
}

func extRWRLock(fr *frame, args []value) value {
	w, rc := rwParts(args[0])
	fr.i.sched.yield()
	free := func() bool { return w[0].(int32) == 0 }
	if !free() {
		fr.i.sched.block(free, "sync.RWMutex.RLock")
	}
	*rc = (*rc).(int32) + 1
	fr.i.lockEvent("RL", args[0])
	return nil
}

func extRWRUnlock(fr *frame, args []value) value {
	_, rc := rwParts(args[0])
	if (*rc).(int32) <= 0 {
		panic(rtErr("sync: RUnlock of unlocked RWMutex"))
	}
	*rc = (*rc).(int32) - 1
	fr.i.lockEvent("RU", args[0])
	fr.i.sched.yield()
	return nil
}

// WaitGroup: structure{noCopy, state atomic.Uint64{_, _, v uint64}, sema uint32}
func wgCounter(p value) *value {
	m := structOf(p)
	st := m[1].(structure)
	return &st[len(st)-1]
}

func extWGAdd(fr *frame, args []value) value {
	c := wgCounter(args[0])
	n := int64((*c).(uint64)) + asInt64(args[1])
	if n < 0 {
		panic(rtErr("sync: negative WaitGroup counter"))
	}
	*c = uint64(n)
	if n == 0 {
		fr.i.sched.yield()
	}
	return nil
}

func extWGWait(fr *frame, args []value) value {
	c := wgCounter(args[0])
	fr.i.sched.yield()
	if (*c).(uint64) != 0 {
		fr.i.sched.block(func() bool { return (*c).(uint64) == 0 }, "sync.WaitGroup.Wait")
	}
	return nil
}

// Once: structure{done atomic.Uint32{_, v} | uint32, m Mutex}
func extOnceDo(fr *frame, args []value) value {
	m := structOf(args[0])
	var done *value
	switch d := m[0].(type) {
	case structure:
		done = &d[len(d)-1]
	default:
		done = &m[0]
	}
	if (*done).(uint32) == 0 {
		*done = uint32(1)
		call(fr.i, fr, 0, args[1], nil)
	}
	return nil
}

// Pool: structure{noCopy, local, localSize, victim, victimSize, New func() any}
func extPoolGet(fr *frame, args []value) value {
	m := structOf(args[0])
	nf := m[len(m)-1]
	switch f := nf.(type) {
	case *ssa.Function:
		if f == nil {
			return iface{}
		}
	case nil:
		return iface{}
	}
	return call(fr.i, fr, 0, nf, nil)
}

// sync.Map: we keep an *omap keyed by interface values in the `dirty` field.
func syncMapStore(fr *frame, p value) *omap {
	m := structOf(p)
	// fields: mu, read, dirty, misses
	if om, ok := m[2].(*omap); ok && om != nil {
		return om
	}
	om := &omap{kt: types.NewInterfaceType(nil, nil), buckets: map[int][]int{}}
	m[2] = om
	return om
}

func extSyncMapLoad(fr *frame, args []value) value {
	om := syncMapStore(fr, args[0])
	v, ok := om.lookup(fr.i, args[1])
	if !ok {
		return tuple{iface{}, false}
	}
	return tuple{v, true}
}

func extSyncMapStore(fr *frame, args []value) value {
	syncMapStore(fr, args[0]).insert(fr.i, args[1], args[2])
	return nil
}

func extSyncMapLoadOrStore(fr *frame, args []value) value {
	om := syncMapStore(fr, args[0])
	if v, ok := om.lookup(fr.i, args[1]); ok {
		return tuple{v, true}
	}
	om.insert(fr.i, args[1], args[2])
	return tuple{args[2], false}
}

func extSyncMapDelete(fr *frame, args []value) value {
	syncMapStore(fr, args[0]).delete(fr.i, args[1])
	return nil
}

func extSyncMapLoadAndDelete(fr *frame, args []value) value {
	om := syncMapStore(fr, args[0])
	v, ok := om.lookup(fr.i, args[1])
	if !ok {
		return tuple{iface{}, false}
	}
	om.delete(fr.i, args[1])
	return tuple{v, true}
}

func extSyncMapRange(fr *frame, args []value) value {
	om := syncMapStore(fr, args[0])
	for idx := 0; idx < len(om.keys); idx++ {
		if !om.live[idx] {
			continue
		}
		r := call(fr.i, fr, 0, args[1], []value{om.keys[idx], om.vals[idx]})
		if !fr.condBool(r) {
			break
		}
	}
	return nil
}

// ---------------------------------------------------------------------------
// sync/atomic

func atomAddr(fr *frame, p value) *value {
	a, ok := p.(*value)
	if !ok || a == nil {
		panic(rtErr("invalid memory address or nil pointer dereference"))
	}
	return a
}

func extAtomicLoad(fr *frame, args []value) value {
	fr.i.sched.yield()
	return *atomAddr(fr, args[0])
}

func extAtomicStore(fr *frame, args []value) value {
	*atomAddr(fr, args[0]) = args[1]
	fr.i.sched.yield()
	return nil
}

func extAtomicAdd(fr *frame, args []value) value {
	a := atomAddr(fr, args[0])
	*a = binop(tokenADD, nil, *a, args[1])
	fr.i.sched.yield()
	return *a
}

func extAtomicSwap(fr *frame, args []value) value {
	a := atomAddr(fr, args[0])
	old := *a
	*a = args[1]
	fr.i.sched.yield()
	return old
}

func extAtomicCAS(fr *frame, args []value) value {
	a := atomAddr(fr, args[0])
	var same bool
	switch old := args[1].(type) {
	case *value:
		cur, _ := (*a).(*value)
		same = cur == old
	default:
		if isSym(*a) || isSym(args[1]) {
			ct, _ := termOf(symBinop(tokenEQL, *a, args[1]))
			same = fr.i.ctx.branch(ct)
		} else {
			same = *a == args[1]
		}
	}
	if same {
		*a = args[2]
	}
	fr.i.sched.yield()
	return same
}

// atomic.Value: structure{v any}
func extAtomicValueLoad(fr *frame, args []value) value {
	m := structOf(args[0])
	fr.i.sched.yield()
	return m[0]
}

func extAtomicValueStore(fr *frame, args []value) value {
	m := structOf(args[0])
	if args[1].(iface).t == nil {
		panic(targetPanic{v: iface{types.Typ[types.String], "sync/atomic: store of nil value into Value"}})
	}
	m[0] = args[1]
	fr.i.sched.yield()
	return nil
}

// atomic.Pointer[T]: structure{_ [0]*T, _ noCopy, v unsafe.Pointer}: we store the *value directly in v.
func extAtomicPtrLoad(fr *frame, args []value) value {
	m := structOf(args[0])
	fr.i.sched.yield()
	if p, ok := m[len(m)-1].(*value); ok {
		return p
	}
	return (*value)(nil)
}

func extAtomicPtrStore(fr *frame, args []value) value {
	m := structOf(args[0])
	m[len(m)-1] = args[1]
	fr.i.sched.yield()
	return nil
}

func extAtomicPtrSwap(fr *frame, args []value) value {
	m := structOf(args[0])
	old, ok := m[len(m)-1].(*value)
	if !ok {
		old = nil
	}
	m[len(m)-1] = args[1]
	return old
}

func extAtomicPtrCAS(fr *frame, args []value) value {
	m := structOf(args[0])
	cur, _ := m[len(m)-1].(*value)
	if cur == args[1].(*value) {
		m[len(m)-1] = args[2]
		return true
	}
	return false
}

// ---------------------------------------------------------------------------
// sort.Slice / sort.SliceStable: stable insertion sort calling the real less closure.

func extSortSlice(fr *frame, args []value) value {
	s, ok := args[0].(iface).v.([]value)
	if !ok {
		panic("sort.Slice: not a slice")
	}
	less := args[1]
	// Insertion sort on a permutation, then apply. less takes indices into the
	// slice itself, so we sort in place with adjacent swaps (stable).
	for i := 1; i < len(s); i++ {
		for j := i; j > 0; j-- {
			r := call(fr.i, fr, 0, less, []value{j, j - 1})
			if !fr.condBool(r) {
				break
			}
			s[j], s[j-1] = s[j-1], s[j]
		}
	}
	return nil
}

// errors.Is without reflectlite: identity comparison along the Unwrap chain.
func extErrorsIs(fr *frame, args []value) value {
	err, target := args[0].(iface), args[1].(iface)
	if err.t == nil || target.t == nil {
		return err.t == nil && target.t == nil
	}
	for depth := 0; depth < 32; depth++ {
		if sameType(err.t, target.t) && types.Comparable(err.t) {
			if fr.condBool(equalsV(err.t, err.v, target.v)) {
				return true
			}
		}
		// Is method?
		if m := fr.i.findMethod(err.t, "Is"); m != nil && m.Signature.Params().Len() == 1 {
			r := call(fr.i, fr, 0, m, []value{err.v, target})
			if b, ok := r.(bool); ok && b {
				return true
			}
		}
		um := fr.i.findMethod(err.t, "Unwrap")
		if um == nil || um.Signature.Results().Len() != 1 {
			return false
		}
		r := call(fr.i, fr, 0, um, []value{err.v})
		next, ok := r.(iface)
		if !ok || next.t == nil {
			return false
		}
		err = next
	}
	return false
}

// errors.As(err, target): target is a non-nil pointer to a variable of an
// interface type or of a type implementing error. The chain is walked through
// Unwrap() error / Unwrap() []error, honouring an As(any) bool method.
func extErrorsAs(fr *frame, args []value) value {
	err, target := args[0].(iface), args[1].(iface)
	if err.t == nil {
		return false
	}
	if target.t == nil {
		panic(rtErr("errors: target cannot be nil"))
	}
	pt, ok := target.t.Underlying().(*types.Pointer)
	addr, ok2 := target.v.(*value)
	if !ok || !ok2 || addr == nil {
		panic(rtErr("errors: target must be a non-nil pointer"))
	}
	elem := pt.Elem()
	var try func(e iface, depth int) bool
	try = func(e iface, depth int) bool {
		for ; depth < 32 && e.t != nil; depth++ {
			if idst, isIface := elem.Underlying().(*types.Interface); isIface {
				if checkInterface(fr.i, idst, e) == "" {
					store(elem, addr, e)
					return true
				}
			} else if types.Identical(e.t, elem) {
				store(elem, addr, e.v)
				return true
			}
			if m := fr.i.findMethod(e.t, "As"); m != nil && m.Signature.Params().Len() == 1 {
				if b, ok := call(fr.i, fr, 0, m, []value{e.v, target}).(bool); ok && b {
					return true
				}
			}
			um := fr.i.findMethod(e.t, "Unwrap")
			if um == nil || um.Signature.Results().Len() != 1 {
				return false
			}
			switch r := call(fr.i, fr, 0, um, []value{e.v}).(type) {
			case iface:
				e = r
			case []value:
				for _, x := range r {
					if xe, ok := x.(iface); ok && try(xe, depth+1) {
						return true
					}
				}
				return false
			default:
				return false
			}
		}
		return false
	}
	return try(err, 0)
}

// time.now: (sec int64, nsec int32, mono int64). By default a concrete clock
// that advances one second per call; with vf.SymbolicTime() a fresh symbolic
// non-decreasing instant.
func extTimeNow(fr *frame, args []value) value {
	c := fr.i.ctx
	if !c.symTime {
		c.clock++
		sec := int64(1_700_000_000) + c.clock
		return tuple{sec, int32(0), c.clock * 1_000_000_000}
	}
	sec := c.newVar("time.sec", types.Int64).(symv)
	c.assume(mkCmp(opUlt, sec.t, mkConst(64, 1<<40)))
	if c.lastTime != nil {
		c.assume(mkCmp(opSle, c.lastTime, sec.t))
	}
	c.lastTime = sec.t
	return tuple{sec, int32(0), int64(0)}
}

// ---------------------------------------------------------------------------

func (i *interpreter) errorString(e iface) string {
	defer func() { recover() }()
	if m := i.findMethod(e.t, "Error"); m != nil {
		r := call(i, nil, 0, m, []value{e.v})
		return toString(r)
	}
	return toString(e.v)
}

func sortedKeys(m map[string]bool) []string {
	var r []string
	for k := range m {
		r = append(r, k)
	}
	sort.Strings(r)
	return r
}

var _ = os.Stderr
