package interp

// Model of the parts of crypto/x509, crypto/rsa and crypto/rand that
// mitm.Config.cert uses. A certificate is created from a template, remembers
// its parent and the key it was signed with, and Verify performs the RFC 5280
// leaf checks: validity window against the current instant, subject
// alternative name match (DNS, case-insensitive; IP), server-auth EKU, and
// "issued by a certificate in Roots with that certificate's key". Signatures,
// ASN.1 and chain building are crypto/x509's and are trusted, not verified.

import (
	"go/types"
	"strings"
)

type certState struct {
	parent  *value // parent certificate object (nil: self-signed)
	signKey value  // the private key passed to CreateCertificate
	tmpl    structure
}

type x509State struct {
	raws  []*certState         // index in the fake DER bytes -> state
	certs map[*value]*certState // parsed certificate object -> state
	pools map[*value][]*value   // cert pool -> certificates
	caKey map[*value]value      // certificate object -> private key that signs on its behalf
}

func (fr *frame) x509() *x509State {
	c := fr.i.ctx
	if c.x509 == nil {
		c.x509 = &x509State{certs: map[*value]*certState{}, pools: map[*value][]*value{}, caKey: map[*value]value{}}
	}
	return c.x509
}

func fieldIndex(T types.Type, name string) int {
	st := T.Underlying().(*types.Struct)
	for i := 0; i < st.NumFields(); i++ {
		if st.Field(i).Name() == name {
			return i
		}
	}
	panic("no field " + name + " in " + T.String())
}

func init() {
	externals["crypto/rand.Int"] = func(fr *frame, args []value) value {
		c := fr.i.ctx
		c.clock++ // any strictly increasing number will do for a serial
		bigPkg := fr.i.prog.ImportedPackage("math/big")
		n := call(fr.i, fr, 0, bigPkg.Func("NewInt"), []value{int64(1000 + c.clock)})
		return tuple{n, nilError()}
	}
	externals["crypto/x509.CreateCertificate"] = func(fr *frame, args []value) value {
		fr.i.noteAssumption("crypto/x509 is a model: CreateCertificate records template, parent and signing key; ParseCertificate returns the template's fields; Verify checks validity window, SAN match, EKU and issuer-in-roots-with-its-key")
		xs := fr.x509()
		tmpl := load(fr.i.namedType("crypto/x509", "Certificate"), args[1].(*value)).(structure)
		signKey := args[4]
		if iv, ok := signKey.(iface); ok {
			signKey = iv.v
		}
		st := &certState{parent: args[2].(*value), signKey: signKey, tmpl: tmpl}
		if args[2].(*value) == args[1].(*value) {
			st.parent = nil
		}
		xs.raws = append(xs.raws, st)
		idx := len(xs.raws) - 1
		raw := []value{uint8('C'), uint8('E'), uint8('R'), uint8('T'), uint8(idx)}
		return tuple{raw, nilError()}
	}
	externals["crypto/x509.ParseCertificate"] = func(fr *frame, args []value) value {
		xs := fr.x509()
		raw := args[0].([]value)
		if len(raw) != 5 {
			return tuple{(*value)(nil), fr.newError("x509: malformed certificate")}
		}
		idx := int(raw[4].(uint8))
		if idx >= len(xs.raws) {
			return tuple{(*value)(nil), fr.newError("x509: malformed certificate")}
		}
		st := xs.raws[idx]
		T := fr.i.namedType("crypto/x509", "Certificate")
		cell := value(append(structure(nil), st.tmpl...))
		cell.(structure)[fieldIndex(T, "Raw")] = append([]value(nil), raw...)
		p := &cell
		xs.certs[p] = st
		return tuple{p, nilError()}
	}
	externals["crypto/x509.NewCertPool"] = func(fr *frame, args []value) value {
		cell := zero(fr.i.namedType("crypto/x509", "CertPool"))
		p := &cell
		fr.x509().pools[p] = nil
		return p
	}
	externals["(*crypto/x509.CertPool).AddCert"] = func(fr *frame, args []value) value {
		xs := fr.x509()
		p := args[0].(*value)
		xs.pools[p] = append(xs.pools[p], args[1].(*value))
		return nil
	}
	externals["crypto/x509.MarshalPKIXPublicKey"] = func(fr *frame, args []value) value {
		return tuple{strBytesCopy("PUBKEY"), nilError()}
	}
	// crypto/sha1 (subject key identifiers): the digest is a fixed 20-byte value in the engine;
	// no property depends on its bits
	externals["(*crypto/sha1.digest).Write"] = func(fr *frame, args []value) value {
		return tuple{len(args[1].([]value)), nilError()}
	}
	externals["(*crypto/sha1.digest).Sum"] = func(fr *frame, args []value) value {
		out := append([]value(nil), args[1].([]value)...)
		return append(out, strBytesCopy("sha1-digest-model-20")...)
	}
	externals["crypto/rsa.GenerateKey"] = func(fr *frame, args []value) value {
		cell := zero(fr.i.namedType("crypto/rsa", "PrivateKey"))
		return tuple{&cell, nilError()}
	}
	externals["(*crypto/rsa.PrivateKey).Public"] = func(fr *frame, args []value) value {
		T := fr.i.namedType("crypto/rsa", "PrivateKey")
		pk := &(*args[0].(*value)).(structure)[fieldIndex(T, "PublicKey")]
		return iface{t: types.NewPointer(fr.i.namedType("crypto/rsa", "PublicKey")), v: pk}
	}
	// vf.CAKey(cert, key): key signs on behalf of cert
	externals[vfPkg+".CAKey"] = func(fr *frame, args []value) value {
		fr.x509().caKey[args[0].(iface).v.(*value)] = args[1].(iface).v
		return nil
	}
	externals["(*crypto/x509.Certificate).Verify"] = func(fr *frame, args []value) value {
		xs := fr.x509()
		T := fr.i.namedType("crypto/x509", "Certificate")
		OT := fr.i.namedType("crypto/x509", "VerifyOptions")
		cp := args[0].(*value)
		cert := (*cp).(structure)
		opts := args[1].(structure)
		fail := func(msg string) value {
			return tuple{[]value(nil), fr.newError("x509: " + msg)}
		}
		// current time: opts.CurrentTime if set, else time.Now()
		timeT := fr.i.namedType("time", "Time")
		now := opts[fieldIndex(OT, "CurrentTime")]
		isZero := call(fr.i, fr, 0, fr.i.findMethod(timeT, "IsZero"), []value{now})
		if fr.condBool(isZero) {
			now = call(fr.i, fr, 0, fr.i.prog.ImportedPackage("time").Func("Now"), nil)
		}
		nb, na := cert[fieldIndex(T, "NotBefore")], cert[fieldIndex(T, "NotAfter")]
		if fr.condBool(call(fr.i, fr, 0, fr.i.findMethod(timeT, "Before"), []value{now, nb})) {
			return fail("certificate is not yet valid")
		}
		if fr.condBool(call(fr.i, fr, 0, fr.i.findMethod(timeT, "After"), []value{now, na})) {
			return fail("certificate has expired")
		}
		// name
		name := opts[fieldIndex(OT, "DNSName")]
		if strLen(name) > 0 {
			ok := false
			ns, isConc := name.(string)
			if !isConc {
				ns = string(fr.concBytes(strBytes(name)))
			}
			ipPkg := fr.i.prog.ImportedPackage("net")
			ip := call(fr.i, fr, 0, ipPkg.Func("ParseIP"), []value{ns}).([]value)
			if ip != nil {
				for _, c := range cert[fieldIndex(T, "IPAddresses")].([]value) {
					eq := call(fr.i, fr, 0, fr.i.findMethod(fr.i.namedType("net", "IP"), "Equal"), []value{c, ip})
					if fr.condBool(eq) {
						ok = true
					}
				}
			} else {
				for _, d := range cert[fieldIndex(T, "DNSNames")].([]value) {
					ds, conc := d.(string)
					if !conc {
						ds = string(fr.concBytes(strBytes(d)))
					}
					if strings.EqualFold(ds, ns) {
						ok = true
					}
				}
			}
			if !ok {
				return fail("certificate is not valid for the requested name")
			}
		}
		// extended key usage: server auth (1) or any (0)
		ekuOK := false
		for _, e := range cert[fieldIndex(T, "ExtKeyUsage")].([]value) {
			if asInt64(e) == 1 || asInt64(e) == 0 {
				ekuOK = true
			}
		}
		if !ekuOK {
			return fail("certificate specifies an incompatible key usage")
		}
		// issuer
		st := xs.certs[cp]
		roots, _ := opts[fieldIndex(OT, "Roots")].(*value)
		chainOK := false
		if st != nil && st.parent != nil && roots != nil {
			for _, r := range xs.pools[roots] {
				if r == st.parent {
					if k, ok := xs.caKey[r]; ok && k == st.signKey {
						chainOK = true
					}
				}
			}
		}
		if !chainOK {
			return fail("certificate signed by unknown authority")
		}
		chain := []value{[]value{cp, st.parent}}
		return tuple{chain, nilError()}
	}
}

func strBytesCopy(s string) []value { return append([]value(nil), strBytes(s)...) }
