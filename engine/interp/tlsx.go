package interp

// Model of crypto/tls server connections: an opaque *tls.Conn over an inner
// net.Conn. The handshake consumes a 2-byte hello (0x16 0x01) and answers
// 0x16 0x02; afterwards Read/Write pass bytes through unchanged. Whether the
// handshake succeeds and which protocol is negotiated is set by the harness
// through vf.TLSModel. crypto/tls itself is trusted, not verified.

import (
	"go/types"
	"strconv"
)

type tlsState struct {
	inner     iface
	handshook bool
	failed    bool
	id        int // creation index on this path: distinguishes the connection states of different connections
}

func (fr *frame) tlsOf(p value) *tlsState {
	st := fr.i.ctx.tlsConns[p.(*value)]
	if st == nil {
		panic("tls.Conn without engine state")
	}
	return st
}

func (fr *frame) callMethod(recv iface, name string, args ...value) value {
	m := fr.i.findMethod(recv.t, name)
	if m == nil {
		panic("no method " + name + " on " + recv.t.String())
	}
	return call(fr.i, fr, 0, m, append([]value{recv.v}, args...))
}

func init() {
	externals["crypto/tls.Server"] = func(fr *frame, args []value) value {
		fr.i.noteAssumption("crypto/tls is a model: 2-byte hello exchange, then a pass-through byte stream; handshake outcome and negotiated protocol chosen by the harness")
		cell := zero(fr.i.namedType("crypto/tls", "Conn"))
		p := &cell
		fr.i.ctx.tlsConns[p] = &tlsState{inner: args[0].(iface), id: len(fr.i.ctx.tlsConns) + 1}
		return p
	}
	externals["crypto/tls.Client"] = externals["crypto/tls.Server"]
	// tls.Dial returns the connection registered by the harness with vf.TLSDialTarget
	// (already "handshaken"), or an error if none is registered.
	externals["crypto/tls.Dial"] = func(fr *frame, args []value) value {
		fr.i.noteAssumption("crypto/tls.Dial returns a pass-through connection to the harness's server endpoint (or fails, as chosen by the harness)")
		t := fr.i.ctx.tlsDialTarget
		if t.t == nil {
			return tuple{(*value)(nil), fr.newError("dial tcp: connection refused")}
		}
		cell := zero(fr.i.namedType("crypto/tls", "Conn"))
		p := &cell
		fr.i.ctx.tlsConns[p] = &tlsState{inner: t, handshook: true, id: len(fr.i.ctx.tlsConns) + 1}
		return tuple{p, nilError()}
	}
	externals[vfPkg+".TLSDialTarget"] = func(fr *frame, args []value) value {
		fr.i.ctx.tlsDialTarget = args[0].(iface)
		return nil
	}
	handshake := func(fr *frame, args []value) value {
		st := fr.tlsOf(args[0])
		if st.handshook {
			if st.failed {
				return fr.newError("tls: handshake failed")
			}
			return nilError()
		}
		st.handshook = true
		if !fr.i.ctx.tlsOK {
			st.failed = true
			return fr.newError("tls: handshake failed")
		}
		buf := []value{uint8(0), uint8(0)}
		got := 0
		for got < 2 {
			res := fr.callMethod(st.inner, "Read", buf[got:]).(tuple)
			n := int(fr.concInt(res[0]))
			got += n
			if e := res[1].(iface); e.t != nil || n == 0 {
				st.failed = true
				return fr.newError("tls: handshake failed: short hello")
			}
		}
		if !byteEq(fr, buf[0], uint8(0x16)) || !byteEq(fr, buf[1], uint8(0x01)) {
			st.failed = true
			return fr.newError("tls: first record does not look like a TLS handshake")
		}
		fr.callMethod(st.inner, "Write", []value{uint8(0x16), uint8(0x02)})
		return nilError()
	}
	externals["(*crypto/tls.Conn).Handshake"] = handshake
	externals["(*crypto/tls.Conn).HandshakeContext"] = func(fr *frame, args []value) value { return handshake(fr, args[:1]) }
	externals["(*crypto/tls.Conn).ConnectionState"] = func(fr *frame, args []value) value {
		cs := zero(fr.i.namedType("crypto/tls", "ConnectionState")).(structure)
		T := fr.i.namedType("crypto/tls", "ConnectionState").Underlying().(*types.Struct)
		for k := 0; k < T.NumFields(); k++ {
			switch T.Field(k).Name() {
			case "HandshakeComplete":
				cs[k] = true
			case "NegotiatedProtocol":
				cs[k] = fr.i.ctx.tlsProto
			case "Version":
				cs[k] = uint16(0x0303)
			case "ServerName":
				// stands for everything that is specific to one connection's state
				cs[k] = "tls-model-conn-" + strconv.Itoa(fr.tlsOf(args[0]).id)
			}
		}
		return cs
	}
	externals["(*crypto/tls.Conn).Read"] = func(fr *frame, args []value) value {
		st := fr.tlsOf(args[0])
		if !st.handshook {
			if e := handshake(fr, args[:1]).(iface); e.t != nil {
				return tuple{0, e}
			}
		}
		return fr.callMethod(st.inner, "Read", args[1])
	}
	externals["(*crypto/tls.Conn).Write"] = func(fr *frame, args []value) value {
		st := fr.tlsOf(args[0])
		if !st.handshook {
			if e := handshake(fr, args[:1]).(iface); e.t != nil {
				return tuple{0, e}
			}
		}
		return fr.callMethod(st.inner, "Write", args[1])
	}
	for _, name := range []string{"Close", "LocalAddr", "RemoteAddr"} {
		name := name
		externals["(*crypto/tls.Conn)."+name] = func(fr *frame, args []value) value {
			return fr.callMethod(fr.tlsOf(args[0]).inner, name)
		}
	}
	externals["(*crypto/tls.Conn).CloseWrite"] = func(fr *frame, args []value) value { return nilError() }
	for _, name := range []string{"SetDeadline", "SetReadDeadline", "SetWriteDeadline"} {
		name := name
		externals["(*crypto/tls.Conn)."+name] = func(fr *frame, args []value) value {
			return fr.callMethod(fr.tlsOf(args[0]).inner, name, args[1])
		}
	}
	externals["(*crypto/tls.Conn).NetConn"] = func(fr *frame, args []value) value { return fr.tlsOf(args[0]).inner }
	externals[vfPkg+".TLSModel"] = func(fr *frame, args []value) value {
		fr.i.ctx.tlsOK = fr.condBool(args[0])
		fr.i.ctx.tlsProto = args[1]
		return nil
	}
}
