package interp

// SMT terms (bit-vectors and booleans), a concrete evaluator, an SMT-LIB2
// printer and a pipe to a live solver process.

import (
	"bufio"
	"fmt"
	"io"
	"os"
	"os/exec"
	"strconv"
	"strings"
	"time"
)

type opcode uint8

const (
	opConst opcode = iota
	opVar
	opAdd
	opSub
	opMul
	opUDiv
	opSDiv
	opURem
	opSRem
	opAnd
	opOr
	opXor
	opShl
	opLShr
	opAShr
	opNot // bvnot
	opNeg
	opEq // bv or bool equality -> Bool
	opUlt
	opUle
	opSlt
	opSle
	opBNot
	opBAnd
	opBOr
	opIte     // a=cond(Bool) b,c
	opExtract // k = hi<<8|lo
	opZext    // to width w
	opSext
	opConcat
)

var opNames = map[opcode]string{
	opAdd: "bvadd", opSub: "bvsub", opMul: "bvmul", opUDiv: "bvudiv", opSDiv: "bvsdiv",
	opURem: "bvurem", opSRem: "bvsrem", opAnd: "bvand", opOr: "bvor", opXor: "bvxor",
	opShl: "bvshl", opLShr: "bvlshr", opAShr: "bvashr", opNot: "bvnot", opNeg: "bvneg",
	opEq: "=", opUlt: "bvult", opUle: "bvule", opSlt: "bvslt", opSle: "bvsle",
	opBNot: "not", opBAnd: "and", opBOr: "or", opIte: "ite", opConcat: "concat",
}

// Term is an SMT term. w==0 means Bool; otherwise a bit-vector of width w<=64.
type Term struct {
	op      opcode
	w       uint8
	a, b, c *Term
	k       uint64
	name    string
	gen     int64 // solver generation in which this node was defined
	id      int64
	size    int32
	sup     *Term // the single variable this term depends on (nil: none or several)
	multi   bool  // depends on more than one variable
	h       uint64
	ub      uint64 // unsigned upper bound (valid if ubOK)
	ubOK    bool
}

// ubOf returns an upper bound on the unsigned value of a bit-vector term.
func ubOf(t *Term) uint64 {
	if t.ubOK {
		return t.ub
	}
	m := mask(t.w)
	u := m
	mulOv := func(a, b uint64) (uint64, bool) {
		if a == 0 || b == 0 {
			return 0, true
		}
		c := a * b
		if c/b != a {
			return 0, false
		}
		return c, true
	}
	switch t.op {
	case opConst:
		u = t.k
	case opZext:
		u = ubOf(t.a)
	case opAdd:
		a, b := ubOf(t.a), ubOf(t.b)
		if c := a + b; c >= a && c <= m {
			u = c
		}
	case opMul:
		if c, ok := mulOv(ubOf(t.a), ubOf(t.b)); ok && c <= m {
			u = c
		}
	case opAnd:
		u = ubOf(t.a)
		if b := ubOf(t.b); b < u {
			u = b
		}
	case opOr, opXor:
		a, b := ubOf(t.a), ubOf(t.b)
		if b > a {
			a = b
		}
		// next power of two minus one
		for a&(a+1) != 0 {
			a |= a >> 1
		}
		u = a
	case opURem:
		u = ubOf(t.a)
		if t.b.isConst() && t.b.k > 0 && t.b.k-1 < u {
			u = t.b.k - 1
		}
	case opUDiv:
		u = ubOf(t.a)
		if t.b.isConst() && t.b.k > 0 {
			u = u / t.b.k
		}
	case opLShr:
		u = ubOf(t.a)
		if t.b.isConst() && t.b.k < 64 {
			u >>= t.b.k
		}
	case opIte:
		u = ubOf(t.b)
		if c := ubOf(t.c); c > u {
			u = c
		}
	case opExtract:
		if uint8(t.k&0xff) == 0 {
			if a := ubOf(t.a); a < u {
				u = a
			}
		}
	}
	if u > m {
		u = m
	}
	t.ub, t.ubOK = u, true
	return u
}

// narrowWidth returns a smaller width sufficient for values <= ub (0: keep).
func narrowWidth(w uint8, ub uint64) uint8 {
	switch {
	case w > 16 && ub < 1<<15:
		return 16
	case w > 32 && ub < 1<<31:
		return 32
	}
	return 0
}

func mix(h, x uint64) uint64 {
	h ^= x + 0x9e3779b97f4a7c15 + (h << 6) + (h >> 2)
	return h * 0xff51afd7ed558ccd
}

func (t *Term) hash() uint64 {
	if t.h != 0 {
		return t.h
	}
	h := mix(uint64(t.op)+1, uint64(t.w))
	h = mix(h, t.k)
	for i := 0; i < len(t.name); i++ {
		h = mix(h, uint64(t.name[i]))
	}
	for _, ch := range [3]*Term{t.a, t.b, t.c} {
		if ch != nil {
			h = mix(h, ch.hash())
		} else {
			h = mix(h, 7)
		}
	}
	if h == 0 {
		h = 1
	}
	t.h = h
	return h
}

// sameTerm is structural equality.
func sameTerm(x, y *Term) bool {
	if x == y {
		return true
	}
	if x == nil || y == nil {
		return false
	}
	if x.op != y.op || x.w != y.w || x.k != y.k || x.name != y.name || x.hash() != y.hash() {
		return false
	}
	return sameTerm(x.a, y.a) && sameTerm(x.b, y.b) && sameTerm(x.c, y.c)
}

// rebuild constructs op(a,b,c) through the simplifying constructors.
func rebuild(t *Term, a, b, c *Term) *Term {
	switch t.op {
	case opAdd, opSub, opMul, opUDiv, opSDiv, opURem, opSRem, opAnd, opOr, opXor, opShl, opLShr, opAShr:
		return mkBin(t.op, a, b)
	case opEq, opUlt, opUle, opSlt, opSle:
		return mkCmp(t.op, a, b)
	case opNot:
		return mkBvNot(a)
	case opNeg:
		return mkNeg(a)
	case opBNot:
		return mkNot(a)
	case opBAnd:
		return mkAnd(a, b)
	case opBOr:
		return mkOr(a, b)
	case opIte:
		return mkIte(a, b, c)
	case opExtract:
		return mkExtract(a, uint8(t.k>>8), uint8(t.k&0xff))
	case opZext:
		return mkZext(a, t.w)
	case opSext:
		return mkSext(a, t.w)
	case opConcat:
		return mkConcat(a, b)
	}
	panic("rebuild: bad op")
}

// supp computes the support summary of a freshly built term from its children.
func (t *Term) supp() *Term {
	for _, ch := range [3]*Term{t.a, t.b, t.c} {
		if ch == nil {
			continue
		}
		if ch.multi {
			t.multi = true
			t.sup = nil
			return t
		}
		if ch.sup != nil {
			if t.sup == nil {
				t.sup = ch.sup
			} else if t.sup != ch.sup {
				t.multi = true
				t.sup = nil
				return t
			}
		}
	}
	return t
}

// evalSingle evaluates t with its single support variable set to val.
func evalSingle(t *Term, val uint64) uint64 {
	switch t.op {
	case opConst:
		return t.k
	case opVar:
		return val & maskOrBool(t.w)
	case opAdd, opSub, opMul, opUDiv, opSDiv, opURem, opSRem, opAnd, opOr, opXor, opShl, opLShr, opAShr:
		return evalBin(t.op, t.w, evalSingle(t.a, val), evalSingle(t.b, val))
	case opEq, opUlt, opUle, opSlt, opSle:
		return b2u(evalCmp(t.op, t.a.w, evalSingle(t.a, val), evalSingle(t.b, val)))
	case opNot:
		return ^evalSingle(t.a, val) & mask(t.w)
	case opNeg:
		return -evalSingle(t.a, val) & mask(t.w)
	case opBNot:
		return 1 - evalSingle(t.a, val)
	case opBAnd:
		if evalSingle(t.a, val) == 0 {
			return 0
		}
		return evalSingle(t.b, val)
	case opBOr:
		if evalSingle(t.a, val) == 1 {
			return 1
		}
		return evalSingle(t.b, val)
	case opIte:
		if evalSingle(t.a, val) == 1 {
			return evalSingle(t.b, val)
		}
		return evalSingle(t.c, val)
	case opExtract:
		return (evalSingle(t.a, val) >> uint8(t.k&0xff)) & mask(t.w)
	case opZext:
		return evalSingle(t.a, val)
	case opSext:
		return uint64(signExt(evalSingle(t.a, val), t.a.w)) & mask(t.w)
	case opConcat:
		return evalSingle(t.a, val)<<t.b.w | evalSingle(t.b, val)
	}
	panic("evalSingle: bad op")
}

func mask(w uint8) uint64 {
	if w >= 64 {
		return ^uint64(0)
	}
	return (uint64(1) << w) - 1
}

func mkConst(w uint8, k uint64) *Term { return &Term{op: opConst, w: w, k: k & maskOrBool(w), size: 1} }

var termTrue = &Term{op: opConst, w: 0, k: 1, size: 1}
var termFalse = &Term{op: opConst, w: 0, k: 0, size: 1}

func mkBool(b bool) *Term {
	if b {
		return termTrue
	}
	return termFalse
}

func mkVar(w uint8, name string) *Term {
	t := &Term{op: opVar, w: w, name: name, size: 1}
	t.sup = t
	return t
}

func (t *Term) isConst() bool { return t.op == opConst }
func (t *Term) isTrue() bool  { return t.op == opConst && t.w == 0 && t.k == 1 }
func (t *Term) isFalse() bool { return t.op == opConst && t.w == 0 && t.k == 0 }

func sz(ts ...*Term) int32 {
	var n int32 = 1
	for _, t := range ts {
		if t != nil {
			n += t.size
		}
	}
	if n < 0 {
		n = 1 << 30
	}
	return n
}

func signExt(v uint64, w uint8) int64 {
	if w >= 64 {
		return int64(v)
	}
	sh := 64 - w
	return int64(v<<sh) >> sh
}

func evalBin(op opcode, w uint8, x, y uint64) uint64 {
	m := mask(w)
	switch op {
	case opAdd:
		return (x + y) & m
	case opSub:
		return (x - y) & m
	case opMul:
		return (x * y) & m
	case opUDiv:
		if y == 0 {
			return m
		}
		return (x / y) & m
	case opURem:
		if y == 0 {
			return x
		}
		return (x % y) & m
	case opSDiv:
		sx, sy := signExt(x, w), signExt(y, w)
		if sy == 0 {
			if sx < 0 {
				return 1
			}
			return m
		}
		if sy == -1 {
			return uint64(-sx) & m
		}
		return uint64(sx/sy) & m
	case opSRem:
		sx, sy := signExt(x, w), signExt(y, w)
		if sy == 0 {
			return x
		}
		if sy == -1 {
			return 0
		}
		return uint64(sx%sy) & m
	case opAnd:
		return x & y
	case opOr:
		return x | y
	case opXor:
		return x ^ y
	case opShl:
		if y >= uint64(w) {
			return 0
		}
		return (x << y) & m
	case opLShr:
		if y >= uint64(w) {
			return 0
		}
		return (x >> y) & m
	case opAShr:
		sx := signExt(x, w)
		if y >= uint64(w) {
			if sx < 0 {
				return m
			}
			return 0
		}
		return uint64(sx>>y) & m
	}
	panic("evalBin: bad op")
}

func evalCmp(op opcode, w uint8, x, y uint64) bool {
	switch op {
	case opEq:
		return x == y
	case opUlt:
		return x < y
	case opUle:
		return x <= y
	case opSlt:
		return signExt(x, w) < signExt(y, w)
	case opSle:
		return signExt(x, w) <= signExt(y, w)
	}
	panic("evalCmp: bad op")
}

func b2u(b bool) uint64 {
	if b {
		return 1
	}
	return 0
}

// mkBin builds a bit-vector binary operation with constant folding.
func mkBin(op opcode, x, y *Term) *Term {
	if x.w != y.w {
		panic(fmt.Sprintf("mkBin %s: width mismatch %d vs %d", opNames[op], x.w, y.w))
	}
	if x.isConst() && y.isConst() {
		return mkConst(x.w, evalBin(op, x.w, x.k, y.k))
	}
	switch op {
	case opAdd, opOr, opXor:
		if x.isConst() && x.k == 0 {
			return y
		}
		if y.isConst() && y.k == 0 {
			return x
		}
	case opSub, opShl, opLShr, opAShr:
		if y.isConst() && y.k == 0 {
			return x
		}
	case opAnd:
		if x.isConst() && x.k == 0 || y.isConst() && y.k == 0 {
			return mkConst(x.w, 0)
		}
		if x.isConst() && x.k == mask(x.w) {
			return y
		}
		if y.isConst() && y.k == mask(x.w) {
			return x
		}
	case opMul:
		if x.isConst() && x.k == 1 {
			return y
		}
		if y.isConst() && y.k == 1 {
			return x
		}
		if x.isConst() && x.k == 0 || y.isConst() && y.k == 0 {
			return mkConst(x.w, 0)
		}
	}
	r := (&Term{op: op, w: x.w, a: x, b: y, size: sz(x, y)}).supp()
	switch op {
	case opAdd, opMul, opUDiv, opURem:
		// if the exact (non-wrapping) result is small, compute at a narrower width
		ux, uy := ubOf(x), ubOf(y)
		if nw := narrowWidth(x.w, ubOf(r)); nw != 0 && ux <= mask(nw) && uy <= mask(nw) && ubOf(r) < mask(x.w) {
			nx, ny := mkExtract(x, nw-1, 0), mkExtract(y, nw-1, 0)
			if nx.size <= x.size && ny.size <= y.size {
				return mkZext(mkBin(op, nx, ny), x.w)
			}
		}
	}
	return r
}

func mkCmp(op opcode, x, y *Term) *Term {
	if x.w != y.w {
		panic(fmt.Sprintf("mkCmp %s: width mismatch %d vs %d", opNames[op], x.w, y.w))
	}
	if x.isConst() && y.isConst() {
		return mkBool(evalCmp(op, x.w, x.k, y.k))
	}
	if x == y {
		switch op {
		case opEq, opUle, opSle:
			return termTrue
		default:
			return termFalse
		}
	}
	if x.w > 16 {
		// both sides small and non-negative: compare at a narrower width
		ux, uy := ubOf(x), ubOf(y)
		u := ux
		if uy > u {
			u = uy
		}
		if nw := narrowWidth(x.w, u); nw != 0 {
			nx, ny := mkExtract(x, nw-1, 0), mkExtract(y, nw-1, 0)
			if nx.size <= x.size && ny.size <= y.size {
				nop := op
				if op == opSlt {
					nop = opUlt
				} else if op == opSle {
					nop = opUle
				}
				return mkCmp(nop, nx, ny)
			}
		}
	}
	if op == opEq && x.w == 0 {
		// boolean equality
		if x.isConst() {
			if x.k == 1 {
				return y
			}
			return mkNot(y)
		}
		if y.isConst() {
			if y.k == 1 {
				return x
			}
			return mkNot(x)
		}
	}
	// (= (ite c k1 k2) k) simplification
	if op == opEq && y.isConst() && x.op == opIte && x.b.isConst() && x.c.isConst() {
		if x.b.k == y.k && x.c.k != y.k {
			return x.a
		}
		if x.b.k != y.k && x.c.k == y.k {
			return mkNot(x.a)
		}
		if x.b.k != y.k && x.c.k != y.k {
			return termFalse
		}
	}
	return (&Term{op: op, w: 0, a: x, b: y, size: sz(x, y)}).supp()
}

func mkNot(x *Term) *Term {
	if x.isConst() {
		return mkBool(x.k == 0)
	}
	if x.op == opBNot {
		return x.a
	}
	return (&Term{op: opBNot, w: 0, a: x, size: sz(x)}).supp()
}

func mkAnd(x, y *Term) *Term {
	if x.isFalse() || y.isFalse() {
		return termFalse
	}
	if x.isTrue() {
		return y
	}
	if y.isTrue() {
		return x
	}
	return (&Term{op: opBAnd, w: 0, a: x, b: y, size: sz(x, y)}).supp()
}

func mkOr(x, y *Term) *Term {
	if x.isTrue() || y.isTrue() {
		return termTrue
	}
	if x.isFalse() {
		return y
	}
	if y.isFalse() {
		return x
	}
	return (&Term{op: opBOr, w: 0, a: x, b: y, size: sz(x, y)}).supp()
}

func mkIte(c, x, y *Term) *Term {
	if c.isTrue() {
		return x
	}
	if c.isFalse() {
		return y
	}
	if x == y {
		return x
	}
	if x.isConst() && y.isConst() && x.k == y.k && x.w == y.w {
		return x
	}
	if x.w == 0 {
		// boolean ite
		return mkOr(mkAnd(c, x), mkAnd(mkNot(c), y))
	}
	return (&Term{op: opIte, w: x.w, a: c, b: x, c: y, size: sz(c, x, y)}).supp()
}

func mkBvNot(x *Term) *Term {
	if x.isConst() {
		return mkConst(x.w, ^x.k)
	}
	return (&Term{op: opNot, w: x.w, a: x, size: sz(x)}).supp()
}

func mkNeg(x *Term) *Term {
	if x.isConst() {
		return mkConst(x.w, -x.k)
	}
	return (&Term{op: opNeg, w: x.w, a: x, size: sz(x)}).supp()
}

func mkExtract(x *Term, hi, lo uint8) *Term {
	w := hi - lo + 1
	if lo == 0 && w == x.w {
		return x
	}
	if x.isConst() {
		return mkConst(w, x.k>>lo)
	}
	if (x.op == opZext || x.op == opSext) && lo == 0 && w <= x.a.w {
		return mkExtract(x.a, hi, 0)
	}
	if x.op == opZext && lo == 0 && w > x.a.w {
		return mkZext(x.a, w)
	}
	return (&Term{op: opExtract, w: w, a: x, k: uint64(hi)<<8 | uint64(lo), size: sz(x)}).supp()
}

func mkZext(x *Term, w uint8) *Term {
	if w == x.w {
		return x
	}
	if w < x.w {
		return mkExtract(x, w-1, 0)
	}
	if x.isConst() {
		return mkConst(w, x.k)
	}
	return (&Term{op: opZext, w: w, a: x, size: sz(x)}).supp()
}

func mkSext(x *Term, w uint8) *Term {
	if w == x.w {
		return x
	}
	if w < x.w {
		return mkExtract(x, w-1, 0)
	}
	if x.isConst() {
		return mkConst(w, uint64(signExt(x.k, x.w)))
	}
	return (&Term{op: opSext, w: w, a: x, size: sz(x)}).supp()
}

func mkConcat(hi, lo *Term) *Term {
	if hi.isConst() && lo.isConst() {
		return mkConst(hi.w+lo.w, hi.k<<lo.w|lo.k)
	}
	return (&Term{op: opConcat, w: hi.w + lo.w, a: hi, b: lo, size: sz(hi, lo)}).supp()
}

// ---------------------------------------------------------------------------
// Evaluation under a model.

type Model map[string]uint64

type evaluator struct {
	m    Model
	memo map[*Term]uint64
}

func newEvaluator(m Model) *evaluator { return &evaluator{m: m, memo: map[*Term]uint64{}} }

func (e *evaluator) eval(t *Term) uint64 {
	switch t.op {
	case opConst:
		return t.k
	case opVar:
		return e.m[t.name] & maskOrBool(t.w)
	}
	if v, ok := e.memo[t]; ok {
		return v
	}
	var v uint64
	switch t.op {
	case opAdd, opSub, opMul, opUDiv, opSDiv, opURem, opSRem, opAnd, opOr, opXor, opShl, opLShr, opAShr:
		v = evalBin(t.op, t.w, e.eval(t.a), e.eval(t.b))
	case opEq, opUlt, opUle, opSlt, opSle:
		v = b2u(evalCmp(t.op, t.a.w, e.eval(t.a), e.eval(t.b)))
	case opNot:
		v = ^e.eval(t.a) & mask(t.w)
	case opNeg:
		v = -e.eval(t.a) & mask(t.w)
	case opBNot:
		v = 1 - e.eval(t.a)
	case opBAnd:
		if e.eval(t.a) == 0 {
			v = 0
		} else {
			v = e.eval(t.b)
		}
	case opBOr:
		if e.eval(t.a) == 1 {
			v = 1
		} else {
			v = e.eval(t.b)
		}
	case opIte:
		if e.eval(t.a) == 1 {
			v = e.eval(t.b)
		} else {
			v = e.eval(t.c)
		}
	case opExtract:
		lo := uint8(t.k & 0xff)
		v = (e.eval(t.a) >> lo) & mask(t.w)
	case opZext:
		v = e.eval(t.a)
	case opSext:
		v = uint64(signExt(e.eval(t.a), t.a.w)) & mask(t.w)
	case opConcat:
		v = e.eval(t.a)<<t.b.w | e.eval(t.b)
	default:
		panic("eval: bad op")
	}
	e.memo[t] = v
	return v
}

func maskOrBool(w uint8) uint64 {
	if w == 0 {
		return 1
	}
	return mask(w)
}

// ---------------------------------------------------------------------------
// Solver process.

type Solver struct {
	cmd     *exec.Cmd
	in      io.WriteCloser
	out     *bufio.Reader
	gen     int64
	nextID  int64
	kind    string // "z3", "z3-new", "cvc5"
	timeout int    // ms
	buf     strings.Builder

	Queries   int
	Sat       int
	Unsat     int
	Unknown   int
	Errors    int
	SolveTime time.Duration
	LastErr   string
	log       io.Writer
}

func NewSolver(kind string, timeoutMs int) (*Solver, error) {
	var cmd *exec.Cmd
	switch kind {
	case "z3", "z3-new":
		cmd = exec.Command(kind, "-in", "-smt2")
	case "cvc5":
		cmd = exec.Command("cvc5", "--incremental", "--lang=smt2", "--produce-models", fmt.Sprintf("--tlimit-per=%d", timeoutMs))
	default:
		return nil, fmt.Errorf("unknown solver %q", kind)
	}
	in, err := cmd.StdinPipe()
	if err != nil {
		return nil, err
	}
	out, err := cmd.StdoutPipe()
	if err != nil {
		return nil, err
	}
	cmd.Stderr = nil
	if err := cmd.Start(); err != nil {
		return nil, err
	}
	s := &Solver{cmd: cmd, in: in, out: bufio.NewReaderSize(out, 1<<16), kind: kind, timeout: timeoutMs}
	if kind == "cvc5" {
		s.send("(set-logic QF_BV)\n")
	} else {
		s.send(fmt.Sprintf("(set-option :timeout %d)\n", timeoutMs))
	}
	s.send("(set-option :produce-models true)\n")
	s.send("(push 1)\n")
	s.gen = 1
	return s, nil
}

func (s *Solver) Close() {
	if s == nil || s.cmd == nil {
		return
	}
	s.in.Close()
	done := make(chan struct{})
	go func() { s.cmd.Wait(); close(done) }()
	select {
	case <-done:
	case <-time.After(2 * time.Second):
		s.cmd.Process.Kill()
	}
	s.cmd = nil
}

func (s *Solver) send(str string) {
	if s.log != nil {
		io.WriteString(s.log, str)
	}
	io.WriteString(s.in, str)
}

// NewPath discards everything asserted for the previous path.
func (s *Solver) NewPath() {
	s.send("(pop 1)\n(push 1)\n")
	s.gen++
}

func sortOf(w uint8) string {
	if w == 0 {
		return "Bool"
	}
	return "(_ BitVec " + strconv.Itoa(int(w)) + ")"
}

func constStr(w uint8, k uint64) string {
	if w == 0 {
		if k == 1 {
			return "true"
		}
		return "false"
	}
	return "(_ bv" + strconv.FormatUint(k, 10) + " " + strconv.Itoa(int(w)) + ")"
}

// ref returns the SMT-LIB reference for t, emitting definitions as needed.
func (s *Solver) ref(t *Term) string {
	switch t.op {
	case opConst:
		return constStr(t.w, t.k)
	case opVar:
		if t.gen != s.gen {
			t.gen = s.gen
			s.buf.WriteString("(declare-const " + t.name + " " + sortOf(t.w) + ")\n")
		}
		return t.name
	}
	if t.gen == s.gen {
		return "t" + strconv.FormatInt(t.id, 10)
	}
	var body string
	switch t.op {
	case opNot, opNeg, opBNot:
		body = "(" + opNames[t.op] + " " + s.ref(t.a) + ")"
	case opIte:
		body = "(ite " + s.ref(t.a) + " " + s.ref(t.b) + " " + s.ref(t.c) + ")"
	case opExtract:
		body = fmt.Sprintf("((_ extract %d %d) %s)", t.k>>8, t.k&0xff, s.ref(t.a))
	case opZext:
		body = fmt.Sprintf("((_ zero_extend %d) %s)", t.w-t.a.w, s.ref(t.a))
	case opSext:
		body = fmt.Sprintf("((_ sign_extend %d) %s)", t.w-t.a.w, s.ref(t.a))
	default:
		body = "(" + opNames[t.op] + " " + s.ref(t.a) + " " + s.ref(t.b) + ")"
	}
	if t.size <= 3 {
		// small: inline
		return body
	}
	s.nextID++
	t.id = s.nextID
	t.gen = s.gen
	name := "t" + strconv.FormatInt(t.id, 10)
	s.buf.WriteString("(define-fun " + name + " () " + sortOf(t.w) + " " + body + ")\n")
	return name
}

func (s *Solver) flushDefs() {
	if s.buf.Len() > 0 {
		s.send(s.buf.String())
		s.buf.Reset()
	}
}

// Assert adds t to the current path scope.
func (s *Solver) Assert(t *Term) {
	r := s.ref(t)
	s.flushDefs()
	s.send("(assert " + r + ")\n")
}

var slowLog = os.Getenv("SYMGO_SLOW") != ""

type SatResult int

const (
	Unsat SatResult = iota
	Sat
	Unknown
)

func (r SatResult) String() string { return [...]string{"unsat", "sat", "unknown"}[r] }

func (s *Solver) readLine() (string, error) {
	line, err := s.out.ReadString('\n')
	return strings.TrimSpace(line), err
}

func (s *Solver) readResult() SatResult {
	sawErr := false
	for {
		line, err := s.readLine()
		if err != nil {
			s.Errors++
			s.LastErr = "solver pipe: " + err.Error()
			return Unknown
		}
		switch {
		case line == "sat":
			if sawErr {
				return Unknown
			}
			return Sat
		case line == "unsat":
			if sawErr {
				return Unknown
			}
			return Unsat
		case line == "unknown" || line == "timeout":
			return Unknown
		case strings.HasPrefix(line, "(error"):
			s.Errors++
			s.LastErr = line
			sawErr = true
			if s.kind == "cvc5" {
				// cvc5 prints an error instead of a result for some failures
				if strings.Contains(line, "interrupted") || strings.Contains(line, "limit") {
					return Unknown
				}
			}
		case line == "":
		default:
			// unexpected output; keep reading
		}
	}
}

// Check asks whether the asserted path condition together with extra is satisfiable.
// If wantModel and the answer is sat, the model for vars is returned.
func (s *Solver) Check(extra *Term, vars []*Term, wantModel bool) (SatResult, Model) {
	start := time.Now()
	defer func() { s.SolveTime += time.Since(start) }()
	if slowLog {
		defer func() {
			if d := time.Since(start); d > 2*time.Second {
				desc := "pc"
				if extra != nil {
					desc = extra.String()
				}
				if len(desc) > 400 {
					desc = desc[:400]
				}
				fmt.Fprintf(os.Stderr, "SLOW QUERY %.1fs: %s\n", d.Seconds(), desc)
			}
		}()
	}
	if qlog != nil {
		defer func() {
			if extra == nil {
				qlog(termTrue, 0, time.Since(start))
			} else {
				qlog(extra, 0, time.Since(start))
			}
		}()
	}
	s.Queries++
	if extra != nil {
		r := s.ref(extra)
		s.nextID++
		q := "q" + strconv.FormatInt(s.nextID, 10)
		s.buf.WriteString("(define-fun " + q + " () Bool " + r + ")\n")
		s.flushDefs()
		s.send("(check-sat-assuming (" + q + "))\n")
	} else {
		s.flushDefs()
		s.send("(check-sat)\n")
	}
	res := s.readResult()
	var m Model
	switch res {
	case Sat:
		s.Sat++
		if wantModel {
			m = s.getModel(vars)
			if m == nil {
				res = Unknown
			}
		}
	case Unsat:
		s.Unsat++
	default:
		s.Unknown++
	}
	return res, m
}

func (s *Solver) getModel(vars []*Term) Model {
	m := Model{}
	var decl []*Term
	for _, v := range vars {
		if v.gen == s.gen {
			decl = append(decl, v)
		}
	}
	if len(decl) == 0 {
		return m
	}
	var sb strings.Builder
	sb.WriteString("(get-value (")
	for _, v := range decl {
		sb.WriteString(v.name)
		sb.WriteByte(' ')
	}
	sb.WriteString("))\n")
	s.send(sb.String())
	// read a balanced s-expression
	var text strings.Builder
	depth := 0
	started := false
	for {
		line, err := s.out.ReadString('\n')
		if err != nil {
			s.Errors++
			s.LastErr = "solver pipe: " + err.Error()
			return nil
		}
		if strings.HasPrefix(strings.TrimSpace(line), "(error") {
			s.Errors++
			s.LastErr = strings.TrimSpace(line)
			return nil
		}
		for _, ch := range line {
			if ch == '(' {
				depth++
				started = true
			} else if ch == ')' {
				depth--
			}
		}
		text.WriteString(line)
		if started && depth <= 0 {
			break
		}
	}
	toks := tokenize(text.String())
	// expected: ( ( name value ) ( name value ) ... ) where value may be #x.., #b.., true, false, (_ bvN w)
	i := 0
	next := func() string {
		if i < len(toks) {
			i++
			return toks[i-1]
		}
		return ""
	}
	if next() != "(" {
		return nil
	}
	for i < len(toks) {
		tk := next()
		if tk == ")" {
			break
		}
		if tk != "(" {
			return nil
		}
		name := next()
		val := next()
		var k uint64
		switch {
		case val == "true":
			k = 1
		case val == "false":
			k = 0
		case strings.HasPrefix(val, "#x"):
			k, _ = strconv.ParseUint(val[2:], 16, 64)
		case strings.HasPrefix(val, "#b"):
			k, _ = strconv.ParseUint(val[2:], 2, 64)
		case val == "(":
			// (_ bvN w)
			next() // _
			bv := next()
			next() // w
			next() // )
			k, _ = strconv.ParseUint(strings.TrimPrefix(bv, "bv"), 10, 64)
		}
		if next() != ")" {
			return nil
		}
		// solvers differ in whether they print the |quotes| of a symbol
		m["|"+strings.Trim(name, "|")+"|"] = k
	}
	return m
}

func tokenize(s string) []string {
	var toks []string
	cur := strings.Builder{}
	flush := func() {
		if cur.Len() > 0 {
			toks = append(toks, cur.String())
			cur.Reset()
		}
	}
	for _, ch := range s {
		switch ch {
		case '(', ')':
			flush()
			toks = append(toks, string(ch))
		case ' ', '\n', '\t', '\r':
			flush()
		default:
			cur.WriteRune(ch)
		}
	}
	flush()
	return toks
}

// String renders a term (without sharing) for diagnostics.
func (t *Term) String() string {
	var sb strings.Builder
	t.write(&sb, 0)
	return sb.String()
}

func (t *Term) write(sb *strings.Builder, depth int) {
	if depth > 12 {
		sb.WriteString("...")
		return
	}
	switch t.op {
	case opConst:
		if t.w == 0 {
			sb.WriteString(constStr(0, t.k))
		} else {
			fmt.Fprintf(sb, "%d", t.k)
		}
	case opVar:
		sb.WriteString(t.name)
	case opExtract:
		fmt.Fprintf(sb, "(extract[%d:%d] ", t.k>>8, t.k&0xff)
		t.a.write(sb, depth+1)
		sb.WriteString(")")
	case opZext, opSext:
		if t.op == opZext {
			sb.WriteString("(zext ")
		} else {
			sb.WriteString("(sext ")
		}
		t.a.write(sb, depth+1)
		sb.WriteString(")")
	default:
		sb.WriteString("(" + opNames[t.op])
		for _, x := range []*Term{t.a, t.b, t.c} {
			if x != nil {
				sb.WriteString(" ")
				x.write(sb, depth+1)
			}
		}
		sb.WriteString(")")
	}
}
