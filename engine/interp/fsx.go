package interp

// A stub file system for os.Open / (*os.File).Stat / ReadAt / Read / Close:
// the files are those registered by the harness with vf.FSFile. Every Open is
// recorded so that the harness can check which paths were touched.

import (
	"go/types"
)

type fsFile struct {
	path    string
	content []value
}

type fileState struct {
	f   *fsFile
	pos int
}

type fsState struct {
	files  []*fsFile
	opened []value // every path passed to os.Open (string values, possibly symbolic)
	handles map[*value]*fileState
}

func (fr *frame) fs() *fsState {
	c := fr.i.ctx
	if c.fsys == nil {
		c.fsys = &fsState{handles: map[*value]*fileState{}}
	}
	return c.fsys
}

func (fr *frame) errnoError(op string, path value, errno uintptr) value {
	// &fs.PathError{Op, Path, Err: syscall.Errno(errno)}
	T := fr.i.namedType("io/fs", "PathError")
	cell := zero(T)
	s := cell.(structure)
	s[fieldIndex(T, "Op")] = op
	s[fieldIndex(T, "Path")] = path
	s[fieldIndex(T, "Err")] = iface{t: fr.i.namedType("syscall", "Errno"), v: errno}
	return iface{t: types.NewPointer(T), v: &cell}
}

func init() {
	externals[vfPkg+".FSFile"] = func(fr *frame, args []value) value {
		p, ok := args[0].(string)
		if !ok {
			panic("vf.FSFile: path must be concrete")
		}
		fr.fs().files = append(fr.fs().files, &fsFile{path: p, content: append([]value(nil), args[1].([]value)...)})
		return nil
	}
	externals[vfPkg+".FSOpened"] = func(fr *frame, args []value) value {
		return append([]value(nil), fr.fs().opened...)
	}
	externals["os.Open"] = func(fr *frame, args []value) value {
		fr.i.noteAssumption("os.Open/Stat/ReadAt/Read are a stub file system holding exactly the files the harness registered")
		st := fr.fs()
		name := args[0]
		st.opened = append(st.opened, name)
		for _, f := range st.files {
			if fr.condBool(equalsV(types.Typ[types.String], name, f.path)) {
				cell := zero(fr.i.namedType("os", "File"))
				p := &cell
				st.handles[p] = &fileState{f: f}
				return tuple{p, nilError()}
			}
		}
		return tuple{(*value)(nil), fr.errnoError("open", name, 2)} // ENOENT
	}
	handle := func(fr *frame, p value) *fileState {
		h := fr.fs().handles[p.(*value)]
		if h == nil {
			panic("os.File without stub state")
		}
		return h
	}
	externals["(*os.File).Stat"] = func(fr *frame, args []value) value {
		h := handle(fr, args[0])
		T := fr.i.namedType("os", "fileStat")
		cell := zero(T)
		s := cell.(structure)
		s[fieldIndex(T, "name")] = h.f.path
		s[fieldIndex(T, "size")] = int64(len(h.f.content))
		return tuple{iface{t: types.NewPointer(T), v: &cell}, nilError()}
	}
	externals["(*os.File).ReadAt"] = func(fr *frame, args []value) value {
		h := handle(fr, args[0])
		b := args[1].([]value)
		off := fr.concInt(args[2])
		if off < 0 {
			return tuple{0, fr.newError("readat: negative offset")}
		}
		if off >= int64(len(h.f.content)) {
			return tuple{0, fr.ioEOF()}
		}
		n := copy(b, h.f.content[off:])
		if n < len(b) {
			return tuple{n, fr.ioEOF()}
		}
		return tuple{n, nilError()}
	}
	externals["(*os.File).Read"] = func(fr *frame, args []value) value {
		h := handle(fr, args[0])
		b := args[1].([]value)
		if h.pos >= len(h.f.content) {
			return tuple{0, fr.ioEOF()}
		}
		n := copy(b, h.f.content[h.pos:])
		h.pos += n
		return tuple{n, nilError()}
	}
	externals["(*os.File).Close"] = func(fr *frame, args []value) value { return nilError() }
	externals["(*os.File).Name"] = func(fr *frame, args []value) value { return handle(fr, args[0]).f.path }
	errnoOf := func(fr *frame, e value) (uintptr, bool) {
		it, ok := e.(iface)
		if !ok || it.t == nil {
			return 0, false
		}
		for depth := 0; depth < 4; depth++ {
			if n, ok := it.v.(uintptr); ok && it.t.String() == "syscall.Errno" {
				return n, true
			}
			p, ok := it.v.(*value)
			if !ok || p == nil {
				return 0, false
			}
			st, ok := (*p).(structure)
			if !ok {
				return 0, false
			}
			// *fs.PathError / *os.LinkError / *os.SyscallError: the last field is Err
			inner, ok := st[len(st)-1].(iface)
			if !ok || inner.t == nil {
				return 0, false
			}
			it = inner
		}
		return 0, false
	}
	externals["os.IsNotExist"] = func(fr *frame, args []value) value {
		n, ok := errnoOf(fr, args[0])
		return ok && n == 2
	}
	externals["os.IsPermission"] = func(fr *frame, args []value) value {
		n, ok := errnoOf(fr, args[0])
		return ok && (n == 13 || n == 1)
	}
	externals["os.IsExist"] = func(fr *frame, args []value) value {
		n, ok := errnoOf(fr, args[0])
		return ok && (n == 17 || n == 39)
	}
	externals["os.Stat"] = func(fr *frame, args []value) value {
		return tuple{iface{}, fr.errnoError("stat", args[0], 2)}
	}
	externals["os.ReadFile"] = func(fr *frame, args []value) value {
		return tuple{[]value(nil), fr.errnoError("open", args[0], 2)}
	}
}
