// Copyright 2013 The Go Authors. All rights reserved.
// Use of this source code is governed by a BSD-style
// license that can be found in the LICENSE file.

// Package interp is a fork of golang.org/x/tools/go/ssa/interp (v0.29.0)
// turned into a symbolic executor: scalar values may be SMT terms, branches on
// symbolic conditions fork the path, goroutines run under a cooperative
// scheduler, and Go maps are insertion-ordered. See /verif/DESIGN.md.
package interp

import (
	"fmt"
	"go/token"
	"go/types"
	"log"
	"os"
	"runtime/debug"
	"slices"
	"strings"
	"sync"
		_ "unsafe"

	"golang.org/x/tools/go/ssa"
)

type continuation int

const (
	kNext continuation = iota
	kReturn
	kJump
)

// Mode is a bitmask of options affecting the interpreter.
type Mode uint

const (
	DisableRecover Mode = 1 << iota // Disable recover() in target programs; show interpreter crash instead.
	EnableTracing                   // Print a trace of all instructions as they are interpreted.
)

type methodSet map[string]*ssa.Function

// State shared between all interpreted goroutines.
type interpreter struct {
	osArgs             []value                // the value of os.Args
	prog               *ssa.Program           // the SSA program
	globals            map[*ssa.Global]*value // addresses of global variables (immutable)
	mode               Mode                   // interpreter options
	reflectPackage     *ssa.Package           // the fake reflect package
	errorMethods       methodSet              // the method set of reflect.error, which implements the error interface.
	rtypeMethods       methodSet              // the method set of rtype, which implements the reflect.Type interface.
	runtimeErrorString types.Type             // the runtime.errorString type
	sizes              types.Sizes            // the effective type-sizing function
	goroutines         int32                  // atomically updated
	ctx                *pathCtx               // current path
	sched              *sched                 // cooperative scheduler of the current path
	ex                 *Explorer
	extCache           map[*ssa.Function]externalFn
	initOK             map[string]bool // packages whose initialisers run
	fieldWatch         map[string]bool
	regexps            map[*value]*regexState
	sharedInit         map[string]bool
	extraMutable       map[string]bool
}

type deferred struct {
	fn    value
	args  []value
	instr *ssa.Defer
	tail  *deferred
}

type frame struct {
	i                *interpreter
	caller           *frame
	fn               *ssa.Function
	block, prevBlock *ssa.BasicBlock
	info             *fnInfo
	vals             []value // dynamic values of SSA variables, indexed by info.idx
	locals           []value
	defers           *deferred
	result           value
	panicking        bool
	panic            interface{}
	phitemps         []value // temporaries for parallel phi assignment
	cur              ssa.Instruction
	depth            int
}

func (fr *frame) get(key ssa.Value) value {
	switch key := key.(type) {
	case nil:
		// Hack; simplifies handling of optional attributes
		// such as ssa.Slice.{Low,High}.
		return nil
	case *ssa.Function, *ssa.Builtin:
		return key
	case *ssa.Const:
		return constValue(key)
	case *ssa.Global:
		if r, ok := fr.i.globals[key]; ok {
			return r
		}
		cell := zero(mustDeref(key.Type()))
		fr.i.globals[key] = &cell
		return &cell
	}
	if ix, ok := fr.info.idx[key]; ok {
		return fr.vals[ix]
	}
	panic(fmt.Sprintf("get: no value for %T: %v", key, key.Name()))
}

// runDefer runs a deferred call d.
// It always returns normally, but may set or clear fr.panic.
func (fr *frame) runDefer(d *deferred) {
	if fr.i.mode&EnableTracing != 0 {
		fmt.Fprintf(os.Stderr, "%s: invoking deferred function call\n",
			fr.i.prog.Fset.Position(d.instr.Pos()))
	}
	var ok bool
	defer func() {
		if !ok {
			// Deferred call created a new state of panic.
			fr.panicking = true
			fr.panic = recover()
		}
	}()
	call(fr.i, fr, d.instr.Pos(), d.fn, d.args)
	ok = true
}

// runDefers executes fr's deferred function calls in LIFO order.
//
// On entry, fr.panicking indicates a state of panic; if
// true, fr.panic contains the panic value.
//
// On completion, if a deferred call started a panic, or if no
// deferred call recovered from a previous state of panic, then
// runDefers itself panics after the last deferred call has run.
//
// If there was no initial state of panic, or it was recovered from,
// runDefers returns normally.
func (fr *frame) runDefers() {
	for d := fr.defers; d != nil; d = d.tail {
		fr.runDefer(d)
	}
	fr.defers = nil
	if fr.panicking {
		panic(fr.panic) // new panic, or still panicking
	}
}

// lookupMethod returns the method set for type typ, which may be one
// of the interpreter's fake types.
func lookupMethod(i *interpreter, typ types.Type, meth *types.Func) *ssa.Function {
	switch typ {
	case rtypeType:
		return i.rtypeMethods[meth.Id()]
	case errorType:
		return i.errorMethods[meth.Id()]
	}
	return i.prog.LookupMethod(typ, meth.Pkg(), meth.Name())
}

// fnInfo numbers the SSA values of a function so that frames can use a slice.
type fnInfo struct {
	idx map[ssa.Value]int32
	n   int
}

var fnInfos sync.Map // *ssa.Function -> *fnInfo

func infoOf(fn *ssa.Function) *fnInfo {
	if v, ok := fnInfos.Load(fn); ok {
		return v.(*fnInfo)
	}
	fi := &fnInfo{idx: map[ssa.Value]int32{}}
	add := func(v ssa.Value) {
		if _, ok := fi.idx[v]; !ok {
			fi.idx[v] = int32(len(fi.idx))
		}
	}
	for _, l := range fn.Locals {
		add(l)
	}
	for _, p := range fn.Params {
		add(p)
	}
	for _, fv := range fn.FreeVars {
		add(fv)
	}
	for _, b := range fn.Blocks {
		for _, instr := range b.Instrs {
			if v, ok := instr.(ssa.Value); ok {
				add(v)
			}
		}
	}
	fi.n = len(fi.idx)
	v, _ := fnInfos.LoadOrStore(fn, fi)
	return v.(*fnInfo)
}

func (fr *frame) set(key ssa.Value, v value) {
	fr.vals[fr.info.idx[key]] = v
}

// mustDeref returns the element type of a pointer type.
func mustDeref(t types.Type) types.Type {
	if p, ok := t.Underlying().(*types.Pointer); ok {
		return p.Elem()
	}
	panic(fmt.Sprintf("mustDeref: not a pointer: %v", t))
}

// symref is the address of an element of elems selected by a symbolic index.
type symref struct {
	elems []value
	idx   *Term // 64-bit, known to be in range
}

func (r *symref) load() value {
	k, _, ok := concKind(firstConc(r.elems))
	if !ok {
		panic("symref.load: non-scalar elements")
	}
	w := kindWidth(k)
	// Constant table: group indices by value into runs, default = most common value.
	allConc := true
	for _, e := range r.elems {
		if _, ok := e.(symv); ok {
			allConc = false
			break
		}
	}
	if allConc && len(r.elems) > 4 {
		vals := make([]uint64, len(r.elems))
		count := map[uint64]int{}
		for j, e := range r.elems {
			_, bits, _ := concKind(e)
			vals[j] = bits
			count[bits]++
		}
		// Affine runs: table[i] = i + delta over long index ranges (identity and
		// case-folding tables). Few runs => a small term.
		if w > 0 && w <= 64 {
			type arun struct {
				lo, hi int
				delta  uint64
			}
			var aruns []arun
			for j := 0; j < len(vals); {
				d := (vals[j] - uint64(j)) & mask(w)
				h := j
				for h+1 < len(vals) && (vals[h+1]-uint64(h+1))&mask(w) == d {
					h++
				}
				aruns = append(aruns, arun{j, h, d})
				j = h + 1
			}
			if len(aruns) <= 12 && len(count) > 12 {
				var idxw *Term
				if w < 64 {
					idxw = mkExtract(r.idx, w-1, 0)
				} else {
					idxw = r.idx
				}
				lastRun := aruns[len(aruns)-1]
				at := mkBin(opAdd, idxw, mkConst(w, lastRun.delta))
				for q := len(aruns) - 2; q >= 0; q-- {
					ru := aruns[q]
					at = mkIte(mkCmp(opUle, r.idx, mkConst(64, uint64(ru.hi))), mkBin(opAdd, idxw, mkConst(w, ru.delta)), at)
				}
				return mkSym(k, at)
			}
		}
		var def uint64
		best := -1
		for v, c := range count {
			if c > best || (c == best && v < def) {
				best, def = c, v
			}
		}
		t := mkConst(w, def)
		if w == 0 {
			t = mkBool(def == 1)
		}
		// runs, from the end so the chain is in index order
		type run struct {
			lo, hi int
			v      uint64
		}
		var runs []run
		for j := 0; j < len(vals); {
			if vals[j] == def {
				j++
				continue
			}
			h := j
			for h+1 < len(vals) && vals[h+1] == vals[j] {
				h++
			}
			runs = append(runs, run{j, h, vals[j]})
			j = h + 1
		}
		for q := len(runs) - 1; q >= 0; q-- {
			ru := runs[q]
			var cond *Term
			if ru.lo == ru.hi {
				cond = mkCmp(opEq, r.idx, mkConst(64, uint64(ru.lo)))
			} else {
				cond = mkAnd(mkCmp(opUle, mkConst(64, uint64(ru.lo)), r.idx), mkCmp(opUle, r.idx, mkConst(64, uint64(ru.hi))))
			}
			vt := mkConst(w, ru.v)
			if w == 0 {
				vt = mkBool(ru.v == 1)
			}
			t = mkIte(cond, vt, t)
		}
		return mkSym(k, t)
	}
	last := len(r.elems) - 1
	t, _ := termOf(r.elems[last])
	for j := last - 1; j >= 0; j-- {
		et, _ := termOf(r.elems[j])
		t = mkIte(mkCmp(opEq, r.idx, mkConst(64, uint64(j))), et, t)
	}
	return mkSym(k, t)
}

func (r *symref) store(v value) {
	vt, k := termOf(v)
	for j := range r.elems {
		et, _ := termOf(r.elems[j])
		r.elems[j] = mkSym(k, mkIte(mkCmp(opEq, r.idx, mkConst(64, uint64(j))), vt, et))
	}
}

func firstConc(elems []value) value {
	for _, e := range elems {
		if s, ok := e.(symv); ok {
			return mkConcrete(s.k, 0)
		}
		return e
	}
	return nil
}

func scalarElems(elems []value) bool {
	if len(elems) == 0 || len(elems) > 1024 {
		return false
	}
	for _, e := range elems {
		if _, ok := e.(symv); ok {
			continue
		}
		if _, _, ok := concKind(e); !ok {
			return false
		}
	}
	return true
}

// condBool resolves a (possibly symbolic) boolean to a concrete one, forking if needed.
func (fr *frame) condBool(v value) bool {
	switch v := v.(type) {
	case bool:
		return v
	case symv:
		return fr.i.ctx.branch(v.t)
	}
	panic(fmt.Sprintf("condBool: %T", v))
}

// concInt resolves a (possibly symbolic) integer to a concrete int64 by enumeration.
func (fr *frame) concInt(v value) int64 {
	if s, ok := v.(symv); ok {
		bits := fr.i.ctx.concretize(s.t)
		return asInt64(mkConcrete(s.k, bits))
	}
	return asInt64(v)
}

// concValue makes a scalar concrete.
func (fr *frame) concValue(v value) value {
	if s, ok := v.(symv); ok {
		if c := fr.i.ctx; c.errText {
			// the text of an error built with fmt.Errorf: rendered with one representative value
			// of the symbolic operand, without deciding (pinning) that operand - the text of an
			// error does not steer the code under test, and enumerating the operand's values
			// only to print them multiplies paths
			if st := c.subst(s.t); st.isConst() {
				return mkConcrete(s.k, st.k)
			}
			c.ensureModel()
			return mkConcrete(s.k, c.eval.eval(s.t))
		}
		return mkConcrete(s.k, fr.i.ctx.concretize(s.t))
	}
	return v
}

// indexCheck returns the concrete index or (for scalar element tables) a
// symbolic index term, after checking 0 <= idx < n.
func (fr *frame) indexCheck(idx value, n int) (int64, *Term) {
	if s, ok := idx.(symv); ok {
		t := s.t
		if kindSigned(s.k) {
			t = mkSext(t, 64)
		} else {
			t = mkZext(t, 64)
		}
		inRange := mkCmp(opUlt, t, mkConst(64, uint64(n)))
		if !fr.i.ctx.branch(inRange) {
			panic(rtErr(fmt.Sprintf("index out of range [symbolic] with length %d", n)))
		}
		if t.isConst() {
			return int64(t.k), nil
		}
		return -1, t
	}
	i := asInt64(idx)
	if i < 0 || i >= int64(n) {
		panic(rtErr(fmt.Sprintf("index out of range [%d] with length %d", i, n)))
	}
	return i, nil
}

func (fr *frame) derefCheck(p value) *value {
	a, ok := p.(*value)
	if !ok {
		panic(fmt.Sprintf("deref of %T", p))
	}
	if a == nil {
		panic(rtErr("invalid memory address or nil pointer dereference"))
	}
	return a
}

// visitInstr interprets a single ssa.Instruction within the activation
// record frame.  It returns a continuation value indicating where to
// read the next instruction from.
func visitInstr(fr *frame, instr ssa.Instruction) continuation {
	fr.cur = instr
	switch instr := instr.(type) {
	case *ssa.DebugRef:
		// no-op

	case *ssa.UnOp:
		x := fr.get(instr.X)
		switch instr.Op {
		case token.MUL:
			if r, ok := x.(*symref); ok {
				fr.set(instr, r.load())
			} else {
				fr.set(instr, load(mustDeref(instr.X.Type()), fr.derefCheck(x)))
			}
		case token.ARROW:
			ch, _ := x.(*schan)
			v, ok := fr.i.sched.chanRecv(ch)
			if ch == nil || (!ok && v == nil) {
				v = zero(instr.X.Type().Underlying().(*types.Chan).Elem())
			}
			if instr.CommaOk {
				fr.set(instr, tuple{v, ok})
			} else {
				fr.set(instr, v)
			}
		default:
			fr.set(instr, unop(instr, x))
		}

	case *ssa.BinOp:
		x, y := fr.get(instr.X), fr.get(instr.Y)
		switch instr.Op {
		case token.QUO, token.REM:
			if s, ok := y.(symv); ok {
				if fr.i.ctx.branch(mkCmp(opEq, s.t, mkConst(s.t.w, 0))) {
					panic(rtErr("integer divide by zero"))
				}
			} else if _, bits, ok := concKind(y); ok && bits == 0 {
				panic(rtErr("integer divide by zero"))
			}
		case token.SHL, token.SHR:
			if s, ok := y.(symv); ok && kindSigned(s.k) {
				if fr.i.ctx.branch(mkCmp(opSlt, s.t, mkConst(s.t.w, 0))) {
					panic(rtErr("negative shift amount"))
				}
			}
		}
		fr.set(instr, binop(instr.Op, instr.X.Type(), x, y))

	case *ssa.Call:
		fn, args := prepareCall(fr, &instr.Call)
		fr.set(instr, call(fr.i, fr, instr.Pos(), fn, args))

	case *ssa.ChangeInterface:
		fr.set(instr, fr.get(instr.X))

	case *ssa.ChangeType:
		fr.set(instr, fr.get(instr.X))

	case *ssa.Convert:
		x := fr.get(instr.X)
		if s, ok := x.(symv); ok {
			if b, ok := instr.Type().Underlying().(*types.Basic); !ok || b.Info()&types.IsInteger == 0 {
				x = fr.concValue(s) // to float or string: concretise
			}
		}
		fr.set(instr, conv(instr.Type(), instr.X.Type(), x))

	case *ssa.SliceToArrayPointer:
		fr.set(instr, sliceToArrayPointer(instr.Type(), instr.X.Type(), fr.get(instr.X)))

	case *ssa.MakeInterface:
		fr.set(instr, iface{t: instr.X.Type(), v: fr.get(instr.X)})

	case *ssa.Extract:
		fr.set(instr, fr.get(instr.Tuple).(tuple)[instr.Index])

	case *ssa.Slice:
		fr.set(instr, fr.slice(fr.get(instr.X), fr.get(instr.Low), fr.get(instr.High), fr.get(instr.Max)))

	case *ssa.Return:
		switch len(instr.Results) {
		case 0:
		case 1:
			fr.result = fr.get(instr.Results[0])
		default:
			var res []value
			for _, r := range instr.Results {
				res = append(res, fr.get(r))
			}
			fr.result = tuple(res)
		}
		fr.block = nil
		return kReturn

	case *ssa.RunDefers:
		fr.runDefers()

	case *ssa.Panic:
		panic(targetPanic{v: fr.get(instr.X)})

	case *ssa.Send:
		ch, _ := fr.get(instr.Chan).(*schan)
		fr.i.sched.chanSend(ch, fr.get(instr.X))

	case *ssa.Store:
		addr := fr.get(instr.Addr)
		if r, ok := addr.(*symref); ok {
			r.store(fr.get(instr.Val))
		} else {
			store(mustDeref(instr.Addr.Type()), fr.derefCheck(addr), fr.get(instr.Val))
		}

	case *ssa.If:
		succ := 1
		if fr.condBool(fr.get(instr.Cond)) {
			succ = 0
		}
		fr.prevBlock, fr.block = fr.block, fr.block.Succs[succ]
		return kJump

	case *ssa.Jump:
		fr.prevBlock, fr.block = fr.block, fr.block.Succs[0]
		return kJump

	case *ssa.Defer:
		fn, args := prepareCall(fr, &instr.Call)
		defers := &fr.defers
		if into := fr.get(instr.DeferStack); into != nil {
			defers = into.(**deferred)
		}
		*defers = &deferred{
			fn:    fn,
			args:  args,
			instr: instr,
			tail:  *defers,
		}

	case *ssa.Go:
		fn, args := prepareCall(fr, &instr.Call)
		name := "go"
		switch f := fn.(type) {
		case *ssa.Function:
			name = f.String()
		case *closure:
			name = f.Fn.String()
		}
		fr.i.sched.spawn(fn, args, name)
		fr.i.sched.yield()

	case *ssa.MakeChan:
		n := fr.concInt(fr.get(instr.Size))
		fr.set(instr, &schan{cap: int(n), elem: instr.Type().Underlying().(*types.Chan).Elem()})

	case *ssa.Alloc:
		var addr *value
		if instr.Heap {
			// new
			addr = new(value)
			fr.set(instr, addr)
		} else {
			// local
			addr = fr.vals[fr.info.idx[instr]].(*value)
		}
		*addr = zero(mustDeref(instr.Type()))

	case *ssa.MakeSlice:
		lv, cv := fr.get(instr.Len), fr.get(instr.Cap)
		for _, v := range []value{lv, cv} {
			if s, ok := v.(symv); ok {
				t := s.t
				if kindSigned(s.k) {
					t = mkSext(t, 64)
				} else {
					t = mkZext(t, 64)
				}
				if fr.i.ctx.branch(mkCmp(opSlt, t, mkConst(64, 0))) {
					panic(rtErr("makeslice: len out of range"))
				}
				if !fr.i.ctx.branch(mkCmp(opUlt, t, mkConst(64, 1<<16))) {
					// a huge allocation is not a panic; it is outside what the engine explores
					fr.i.ctx.abort("truncated", "allocation bound (symbolic size >= 65536)")
				}
			}
		}
		n, c := fr.concInt(lv), fr.concInt(cv)
		if n < 0 || c < n || c > 1<<28 {
			panic(rtErr("makeslice: len out of range"))
		}
		slice := make([]value, c)
		tElt := instr.Type().Underlying().(*types.Slice).Elem()
		for i := range slice {
			slice[i] = zero(tElt)
		}
		fr.set(instr, slice[:n])

	case *ssa.MakeMap:
		fr.set(instr, makeMap(instr.Type().Underlying().(*types.Map).Key(), 0))

	case *ssa.Range:
		fr.set(instr, rangeIter(fr.get(instr.X), instr.X.Type()))

	case *ssa.Next:
		it := fr.get(instr.Iter).(iter)
		if si, ok := it.(*sstringIter); ok {
			fr.set(instr, si.nextIn(fr))
		} else {
			fr.set(instr, it.next())
		}

	case *ssa.FieldAddr:
		fr.set(instr, &(*fr.derefCheck(fr.get(instr.X))).(structure)[instr.Field])
		fr.i.watchField(fr, instr)

	case *ssa.Field:
		fr.set(instr, fr.get(instr.X).(structure)[instr.Field])

	case *ssa.IndexAddr:
		x := fr.get(instr.X)
		idx := fr.get(instr.Index)
		var elems []value
		switch x := x.(type) {
		case []value:
			elems = x
		case *value: // *array
			if x == nil {
				panic(rtErr("invalid memory address or nil pointer dereference"))
			}
			elems = (*x).(array)
		default:
			panic(fmt.Sprintf("unexpected x type in IndexAddr: %T", x))
		}
		ci, st := fr.indexCheck(idx, len(elems))
		if st != nil {
			if scalarElems(elems) {
				fr.set(instr, &symref{elems: elems, idx: st})
				break
			}
			ci = int64(fr.i.ctx.concretize(st))
		}
		fr.set(instr, &elems[ci])

	case *ssa.Index:
		x := fr.get(instr.X)
		idx := fr.get(instr.Index)
		var elems []value
		switch x := x.(type) {
		case array:
			elems = x
		case string, sstring:
			elems = strBytes(x)
		default:
			panic(fmt.Sprintf("unexpected x type in Index: %T", x))
		}
		ci, st := fr.indexCheck(idx, len(elems))
		if st != nil {
			if scalarElems(elems) {
				fr.set(instr, (&symref{elems: elems, idx: st}).load())
				break
			}
			ci = int64(fr.i.ctx.concretize(st))
		}
		fr.set(instr, elems[ci])

	case *ssa.Lookup:
		fr.set(instr, fr.lookup(instr, fr.get(instr.X), fr.get(instr.Index)))

	case *ssa.MapUpdate:
		m := fr.get(instr.Map).(*omap)
		m.insert(fr.i, fr.get(instr.Key), fr.get(instr.Value))

	case *ssa.TypeAssert:
		fr.set(instr, typeAssert(fr.i, instr, fr.get(instr.X).(iface)))

	case *ssa.MakeClosure:
		var bindings []value
		for _, binding := range instr.Bindings {
			bindings = append(bindings, fr.get(binding))
		}
		fr.set(instr, &closure{instr.Fn.(*ssa.Function), bindings})

	case *ssa.Phi:
		log.Fatal("unreachable") // phis are processed at block entry

	case *ssa.Select:
		var cases []selCase
		for _, state := range instr.States {
			ch, _ := fr.get(state.Chan).(*schan)
			c := selCase{ch: ch, send: state.Dir == types.SendOnly}
			if state.Send != nil {
				c.v = fr.get(state.Send)
			}
			cases = append(cases, c)
		}
		chosen, recv, recvOk := fr.i.sched.doSelect(cases, instr.Blocking)
		r := tuple{chosen, recvOk}
		for i, st := range instr.States {
			if st.Dir == types.RecvOnly {
				var v value
				if i == chosen && recvOk {
					v = recv
				} else {
					v = zero(st.Chan.Type().Underlying().(*types.Chan).Elem())
				}
				r = append(r, v)
			}
		}
		fr.set(instr, r)

	default:
		panic(fmt.Sprintf("unexpected instruction: %T", instr))
	}

	return kNext
}

// prepareCall determines the function value and argument values for a
// function call in a Call, Go or Defer instruction, performing
// interface method lookup if needed.
func prepareCall(fr *frame, call *ssa.CallCommon) (fn value, args []value) {
	v := fr.get(call.Value)
	if call.Method == nil {
		// Function call.
		fn = v
	} else {
		// Interface method invocation.
		recv := v.(iface)
		if recv.t == nil {
			// a Go run-time panic of the program under test, not an engine failure
			panic(rtErr("invalid memory address or nil pointer dereference"))
		}
		if f := lookupMethod(fr.i, recv.t, call.Method); f == nil {
			// Unreachable in well-typed programs.
			panic(fmt.Sprintf("method set for dynamic type %v does not contain %s", recv.t, call.Method))
		} else {
			fn = f
		}
		args = append(args, recv.v)
	}
	for _, arg := range call.Args {
		args = append(args, fr.get(arg))
	}
	return
}

// call interprets a call to a function (function, builtin or closure)
// fn with arguments args, returning its result.
// callpos is the position of the callsite.
func call(i *interpreter, caller *frame, callpos token.Pos, fn value, args []value) value {
	switch fn := fn.(type) {
	case *ssa.Function:
		if fn == nil {
			panic("call of nil function") // nil of func type
		}
		return callSSA(i, caller, callpos, fn, args, nil)
	case *closure:
		return callSSA(i, caller, callpos, fn.Fn, args, fn.Env)
	case *ssa.Builtin:
		return callBuiltin(caller, callpos, fn, args)
	}
	panic(fmt.Sprintf("cannot call %T", fn))
}

func loc(fset *token.FileSet, pos token.Pos) string {
	if pos == token.NoPos {
		return ""
	}
	return " at " + fset.Position(pos).String()
}

// callSSA interprets a call to function fn with arguments args,
// and lexical environment env, returning its result.
// callpos is the position of the callsite.
func callSSA(i *interpreter, caller *frame, callpos token.Pos, fn *ssa.Function, args []value, env []value) value {
	if i.mode&EnableTracing != 0 {
		fset := fn.Prog.Fset
		fmt.Fprintf(os.Stderr, "Entering %s%s.\n", fn, loc(fset, fn.Pos()))
		suffix := ""
		if caller != nil {
			suffix = ", resuming " + caller.fn.String() + loc(fset, callpos)
		}
		defer fmt.Fprintf(os.Stderr, "Leaving %s%s.\n", fn, suffix)
	}
	fr := &frame{
		i:      i,
		caller: caller, // for panic/recover
		fn:     fn,
	}
	if caller != nil {
		fr.depth = caller.depth + 1
		if fr.depth > i.ex.Bounds.MaxCallDepth {
			i.ctx.abort("truncated", "call depth")
		}
	}
	ext, cached := i.extCache[fn]
	if !cached {
		ext = i.resolveExternal(fn)
		i.extCache[fn] = ext
	}
	if ext != nil {
		r := ext(fr, args)
		if _, ft := r.(fallthroughSSA); !ft {
			return r
		}
	}
	if fn.Blocks == nil {
		panic("no code for function: " + fn.String())
	}

	// generic function body?
	if fn.TypeParams().Len() > 0 && len(fn.TypeArgs()) == 0 {
		panic("interp requires ssa.BuilderMode to include InstantiateGenerics to execute generics")
	}

	fr.info = infoOf(fn)
	fr.vals = make([]value, fr.info.n)
	fr.block = fn.Blocks[0]
	fr.locals = make([]value, len(fn.Locals))
	for i, l := range fn.Locals {
		fr.locals[i] = zero(mustDeref(l.Type()))
		fr.set(l, &fr.locals[i])
	}
	for i, p := range fn.Params {
		fr.set(p, args[i])
	}
	for i, fv := range fn.FreeVars {
		fr.set(fv, env[i])
	}
	for fr.block != nil {
		runFrame(fr)
	}
	return fr.result
}

// runFrame executes SSA instructions starting at fr.block and
// continuing until a return, a panic, or a recovered panic.
func runFrame(fr *frame) {
	defer func() {
		if fr.block == nil {
			return // normal return
		}
		r := recover()
		switch r.(type) {
		case pathAbort, engineError:
			panic(r) // end of path: do not run target defers
		case targetPanic:
			if rr := r.(targetPanic); rr.stk == nil {
				rr.stk = stackOf(fr)
				r = rr
			}
		case rtPanic:
			if rr := r.(rtPanic); rr.stk == nil {
				rr.stk = stackOf(fr)
				r = rr
			}
		default:
			// a panic of the interpreter itself: engine failure, not a target panic
			panic(engineError{fmt.Sprint(r), stackOf(fr), string(debug.Stack())})
		}
		fr.panicking = true
		fr.panic = r
		if fr.i.mode&EnableTracing != 0 {
			fmt.Fprintf(os.Stderr, "Panicking: %T %v.\n", fr.panic, fr.panic)
		}
		fr.runDefers()
		fr.block = fr.fn.Recover
	}()

	ctx := fr.i.ctx
	for {
		if fr.i.mode&EnableTracing != 0 {
			fmt.Fprintf(os.Stderr, ".%s:\n", fr.block)
		}

		nonPhis := executePhis(fr)
		ctx.steps += len(nonPhis)
		if ctx.steps > ctx.ex.Bounds.MaxSteps {
			ctx.abort("truncated", "step bound")
		}
		for _, instr := range nonPhis {
			if fr.i.mode&EnableTracing != 0 {
				if v, ok := instr.(ssa.Value); ok {
					fmt.Fprintln(os.Stderr, "\t", v.Name(), "=", instr)
				} else {
					fmt.Fprintln(os.Stderr, "\t", instr)
				}
			}
			if visitInstr(fr, instr) == kReturn {
				return
			}
			// Inv: kNext (continue) or kJump (last instr)
		}
	}
}

// engineError is a failure of the interpreter (unsupported construct), as
// opposed to a panic of the target program.
type engineError struct {
	msg   string
	stack []string
	gostk string
}

// executePhis executes the phi-nodes at the start of the current
// block and returns the non-phi instructions.
func executePhis(fr *frame) []ssa.Instruction {
	firstNonPhi := -1
	for i, instr := range fr.block.Instrs {
		if _, ok := instr.(*ssa.Phi); !ok {
			firstNonPhi = i
			break
		}
	}
	// Inv: 0 <= firstNonPhi; every block contains a non-phi.

	nonPhis := fr.block.Instrs[firstNonPhi:]
	if firstNonPhi > 0 {
		phis := fr.block.Instrs[:firstNonPhi]
		predIndex := slices.Index(fr.block.Preds, fr.prevBlock)
		fr.phitemps = fr.phitemps[:0]
		for _, phi := range phis {
			phi := phi.(*ssa.Phi)
			fr.phitemps = append(fr.phitemps, fr.get(phi.Edges[predIndex]))
		}
		for i, phi := range phis {
			fr.set(phi.(*ssa.Phi), fr.phitemps[i])
		}
	}
	return nonPhis
}

// doRecover implements the recover() built-in.
func doRecover(caller *frame) value {
	// recover() must be exactly one level beneath the deferred
	// function (two levels beneath the panicking function) to
	// have any effect.  Thus we ignore both "defer recover()" and
	// "defer f() -> g() -> recover()".
	if caller != nil && !caller.panicking &&
		caller.caller != nil && caller.caller.panicking {
		caller.caller.panicking = false
		p := caller.caller.panic
		caller.caller.panic = nil

		switch p := p.(type) {
		case targetPanic:
			// The target program explicitly called panic().
			return p.v
		case rtPanic:
			return iface{caller.i.runtimeErrorString, p.Error()}
		default:
			panic(fmt.Sprintf("unexpected panic type %T in target call to recover()", p))
		}
	}
	return iface{}
}

// classifyPanic turns a Go panic that escaped the interpreted program into a
// path verdict, recording a violation for target panics.
func (i *interpreter) classifyPanic(r interface{}) pathAbort {
	switch r := r.(type) {
	case pathAbort:
		return r
	case engineError:
		return pathAbort{"engine", r.msg + " @ " + strings.Join(r.stack, " <- ")}
	case targetPanic:
		msg := toString(r.v)
		if e, ok := r.v.(iface); ok && e.t != nil {
			msg = e.t.String() + ": " + i.errorString(e)
		}
		i.ctx.ex.addViolation(Violation{Kind: "panic", Label: "panic", Msg: msg, Inputs: i.ctx.safeInputs(), Stack: r.stk, Trace: append([]decision(nil), i.ctx.trace...), Events: append([]string(nil), i.ctx.events...)})
		return pathAbort{"violation", "panic: " + msg}
	case rtPanic:
		i.ctx.ex.addViolation(Violation{Kind: "panic", Label: "panic", Msg: r.Error(), Inputs: i.ctx.safeInputs(), Stack: r.stk, Trace: append([]decision(nil), i.ctx.trace...), Events: append([]string(nil), i.ctx.events...)})
		return pathAbort{"violation", "panic: " + r.Error()}
	}
	return pathAbort{"engine", fmt.Sprintf("interpreter panic: %v\n%s", r, debug.Stack())}
}
