package interp

// Engine model of encoding/json.Unmarshal: an order-preserving JSON parser
// over (possibly partly symbolic) bytes, and a decoder that fills interpreter
// values by walking the target's SSA type and struct tags. Structural bytes
// must be concrete; bytes inside string literals and digits of integers may be
// symbolic.

import (
	"bytes"
	"encoding/base64"
	"encoding/json"
	"fmt"
	"go/types"
	"reflect"
	"strconv"
	"strings"
	"unicode/utf8"

	"golang.org/x/tools/go/ssa"
)

type jkind uint8

const (
	jNull jkind = iota
	jBool
	jNum
	jStr
	jArr
	jObj
)

type jnode struct {
	kind  jkind
	b     bool
	str   []value // string contents (decoded) or number text
	arr   []*jnode
	keys  []string
	vals  []*jnode
	start int // raw span [start,end) in the input
	end   int
}

type jparser struct {
	fr  *frame
	in  []value
	pos int
}

type jsonSyntaxError struct{ msg string }

func (p *jparser) fail(msg string) {
	panic(jsonSyntaxError{fmt.Sprintf("invalid character or syntax at offset %d: %s", p.pos, msg)})
}

// cbyte returns the byte at pos if concrete; symbolic bytes are not allowed
// where structure is decided.
func (p *jparser) peek() (byte, bool) {
	if p.pos >= len(p.in) {
		return 0, false
	}
	if c, ok := p.in[p.pos].(uint8); ok {
		return c, true
	}
	return 0xff, true // symbolic byte: never a structural character (assumed below)
}

func (p *jparser) ws() {
	for p.pos < len(p.in) {
		c, ok := p.in[p.pos].(uint8)
		if !ok || !(c == ' ' || c == '\t' || c == '\n' || c == '\r') {
			return
		}
		p.pos++
	}
}

func (p *jparser) value() *jnode {
	p.ws()
	c, ok := p.peek()
	if !ok {
		p.fail("unexpected end of JSON input")
	}
	n := &jnode{start: p.pos}
	switch {
	case c == '{':
		n.kind = jObj
		p.pos++
		p.ws()
		if c, _ := p.peek(); c == '}' {
			p.pos++
			break
		}
		for {
			p.ws()
			if c, _ := p.peek(); c != '"' {
				p.fail("object key must be a string")
			}
			k := p.str()
			ks, isConc := normStr(k).(string)
			if !isConc {
				p.fr.i.ctx.abort("engine", "JSON object key with symbolic bytes")
			}
			p.ws()
			if c, _ := p.peek(); c != ':' {
				p.fail("expected ':' after object key")
			}
			p.pos++
			v := p.value()
			n.keys = append(n.keys, ks)
			n.vals = append(n.vals, v)
			p.ws()
			c, _ := p.peek()
			p.pos++
			if c == '}' {
				break
			}
			if c != ',' {
				p.pos--
				p.fail("expected ',' or '}' in object")
			}
		}
	case c == '[':
		n.kind = jArr
		p.pos++
		p.ws()
		if c, _ := p.peek(); c == ']' {
			p.pos++
			break
		}
		for {
			n.arr = append(n.arr, p.value())
			p.ws()
			c, _ := p.peek()
			p.pos++
			if c == ']' {
				break
			}
			if c != ',' {
				p.pos--
				p.fail("expected ',' or ']' in array")
			}
		}
	case c == '"':
		n.kind = jStr
		n.str = p.str()
	case c == 't' || c == 'f' || c == 'n':
		for _, lit := range []string{"true", "false", "null"} {
			if p.hasLit(lit) {
				p.pos += len(lit)
				switch lit {
				case "true":
					n.kind, n.b = jBool, true
				case "false":
					n.kind = jBool
				default:
					n.kind = jNull
				}
				n.end = p.pos
				return n
			}
		}
		p.fail("invalid literal")
	case c == '-' || (c >= '0' && c <= '9') || c == 0xff:
		n.kind = jNum
		beg := p.pos
		for p.pos < len(p.in) {
			if c, ok := p.in[p.pos].(uint8); ok {
				if !(c == '-' || c == '+' || c == '.' || c == 'e' || c == 'E' || (c >= '0' && c <= '9')) {
					break
				}
			}
			p.pos++
		}
		n.str = p.in[beg:p.pos]
	default:
		p.fail(fmt.Sprintf("unexpected character %q", c))
	}
	n.end = p.pos
	return n
}

func (p *jparser) hasLit(lit string) bool {
	if p.pos+len(lit) > len(p.in) {
		return false
	}
	for i := 0; i < len(lit); i++ {
		if c, ok := p.in[p.pos+i].(uint8); !ok || c != lit[i] {
			return false
		}
	}
	return true
}

// str parses a string literal at pos (opening quote) and returns its decoded bytes.
func (p *jparser) str() []value {
	p.pos++ // opening quote
	var out []value
	for {
		if p.pos >= len(p.in) {
			p.fail("unterminated string")
		}
		v := p.in[p.pos]
		c, conc := v.(uint8)
		if !conc {
			// symbolic byte inside a string literal: assumed to be an ordinary character
			t := byteTerm(v)
			ctx := p.fr.i.ctx
			ctx.assumes["JSON model: symbolic bytes inside JSON string literals are printable ASCII other than quote and backslash"] = true
			ctx.assume(mkAnd(mkAnd(mkCmp(opUle, mkConst(8, 0x20), t), mkCmp(opUlt, t, mkConst(8, 0x7f))),
				mkAnd(mkNot(mkCmp(opEq, t, mkConst(8, '"'))), mkNot(mkCmp(opEq, t, mkConst(8, '\\'))))))
			out = append(out, v)
			p.pos++
			continue
		}
		p.pos++
		switch {
		case c == '"':
			return out
		case c == '\\':
			if p.pos >= len(p.in) {
				p.fail("unterminated escape")
			}
			e, ok := p.in[p.pos].(uint8)
			if !ok {
				p.fail("symbolic escape")
			}
			p.pos++
			switch e {
			case '"', '\\', '/':
				out = append(out, e)
			case 'b':
				out = append(out, uint8('\b'))
			case 'f':
				out = append(out, uint8('\f'))
			case 'n':
				out = append(out, uint8('\n'))
			case 'r':
				out = append(out, uint8('\r'))
			case 't':
				out = append(out, uint8('\t'))
			case 'u':
				if p.pos+4 > len(p.in) {
					p.fail("short \\u escape")
				}
				hex := make([]byte, 4)
				for i := range hex {
					h, ok := p.in[p.pos+i].(uint8)
					if !ok {
						p.fail("symbolic \\u escape")
					}
					hex[i] = h
				}
				r, err := strconv.ParseUint(string(hex), 16, 32)
				if err != nil {
					p.fail("bad \\u escape")
				}
				p.pos += 4
				var buf [4]byte
				k := utf8.EncodeRune(buf[:], rune(r))
				for i := 0; i < k; i++ {
					out = append(out, buf[i])
				}
			default:
				p.fail("invalid escape")
			}
		case c < 0x20:
			p.fail("control character in string literal")
		default:
			out = append(out, c)
		}
	}
}

func parseJSON(fr *frame, in []value) (n *jnode, errMsg string) {
	defer func() {
		if r := recover(); r != nil {
			if se, ok := r.(jsonSyntaxError); ok {
				n, errMsg = nil, se.msg
				return
			}
			panic(r)
		}
	}()
	p := &jparser{fr: fr, in: in}
	n = p.value()
	p.ws()
	if p.pos != len(in) {
		p.fail("invalid character after top-level value")
	}
	return n, ""
}

// jsonFirstValue parses the first JSON value of in and returns the offset just behind it; on a
// syntax error end is -1 and atEnd tells whether the parser had consumed all of the input.
func jsonFirstValue(fr *frame, in []value) (end int, atEnd bool, errMsg string) {
	p := &jparser{fr: fr, in: in}
	defer func() {
		if r := recover(); r != nil {
			if se, ok := r.(jsonSyntaxError); ok {
				end, atEnd, errMsg = -1, p.pos >= len(in), se.msg
				return
			}
			panic(r)
		}
	}()
	p.value()
	return p.pos, false, ""
}

type jsonTypeError struct{ msg string }

func jsonFieldName(f *types.Var, tag string) (string, bool) {
	st := reflect.StructTag(tag)
	if t, ok := st.Lookup("json"); ok {
		name := strings.Split(t, ",")[0]
		if name == "-" {
			return "", false
		}
		if name != "" {
			return name, true
		}
	}
	if !f.Exported() {
		return "", false
	}
	return f.Name(), true
}

func (fr *frame) jsonAssign(addr *value, T types.Type, n *jnode, raw []value) {
	// custom UnmarshalJSON on *T
	if _, isNamed := T.(*types.Named); isNamed {
		if m := fr.i.findMethod(types.NewPointer(T), "UnmarshalJSON"); m != nil {
			if n.kind == jNull && T.String() != "encoding/json.RawMessage" {
				return
			}
			res := call(fr.i, fr, 0, m, []value{addr, append([]value(nil), raw[n.start:n.end]...)})
			if e, ok := res.(iface); ok && e.t != nil {
				panic(jsonTypeError{fr.i.errorString(e)})
			}
			return
		}
	}
	if n.kind == jNull {
		switch T.Underlying().(type) {
		case *types.Pointer, *types.Slice, *types.Map, *types.Interface:
			*addr = zero(T)
		}
		return
	}
	bad := func() {
		panic(jsonTypeError{fmt.Sprintf("json: cannot unmarshal %s into Go value of type %s", [...]string{"null", "bool", "number", "string", "array", "object"}[n.kind], T)})
	}
	switch U := T.Underlying().(type) {
	case *types.Basic:
		switch {
		case U.Kind() == types.String:
			if n.kind != jStr {
				bad()
			}
			*addr = normStr(n.str)
		case U.Kind() == types.Bool:
			if n.kind != jBool {
				bad()
			}
			*addr = n.b
		case U.Info()&types.IsInteger != 0:
			if n.kind != jNum {
				bad()
			}
			*addr = fr.jsonInt(U.Kind(), n.str, T)
		case U.Info()&types.IsFloat != 0:
			if n.kind != jNum {
				bad()
			}
			s, ok := normStr(n.str).(string)
			if !ok {
				fr.i.ctx.abort("engine", "symbolic JSON float")
			}
			f, err := strconv.ParseFloat(s, 64)
			if err != nil {
				bad()
			}
			if U.Kind() == types.Float32 {
				*addr = float32(f)
			} else {
				*addr = f
			}
		default:
			bad()
		}
	case *types.Pointer:
		cell := zero(U.Elem())
		p := &cell
		fr.jsonAssign(p, U.Elem(), n, raw)
		*addr = p
	case *types.Slice:
		if b, ok := U.Elem().Underlying().(*types.Basic); ok && b.Kind() == types.Uint8 {
			// []byte: base64 string
			if n.kind != jStr {
				bad()
			}
			s, ok := normStr(n.str).(string)
			if !ok {
				fr.i.ctx.abort("engine", "symbolic base64 in JSON")
			}
			dec, err := base64.StdEncoding.DecodeString(s)
			if err != nil {
				panic(jsonTypeError{"illegal base64 data"})
			}
			out := make([]value, len(dec))
			for i, c := range dec {
				out[i] = c
			}
			*addr = out
			return
		}
		if n.kind != jArr {
			bad()
		}
		out := make([]value, len(n.arr))
		for i, e := range n.arr {
			out[i] = zero(U.Elem())
			fr.jsonAssign(&out[i], U.Elem(), e, raw)
		}
		*addr = out
	case *types.Map:
		if n.kind != jObj {
			bad()
		}
		m, _ := (*addr).(*omap)
		if m == nil {
			m = makeMap(U.Key(), 0).(*omap)
		}
		for i, k := range n.keys {
			v := zero(U.Elem())
			fr.jsonAssign(&v, U.Elem(), n.vals[i], raw)
			m.insert(fr.i, k, v)
		}
		*addr = m
	case *types.Struct:
		if n.kind != jObj {
			bad()
		}
		sv := (*addr).(structure)
		for i, k := range n.keys {
			idx := -1
			for f := 0; f < U.NumFields(); f++ {
				name, ok := jsonFieldName(U.Field(f), U.Tag(f))
				if ok && name == k {
					idx = f
					break
				}
			}
			if idx < 0 {
				for f := 0; f < U.NumFields(); f++ {
					name, ok := jsonFieldName(U.Field(f), U.Tag(f))
					if ok && strings.EqualFold(name, k) {
						idx = f
						break
					}
				}
			}
			if idx < 0 {
				continue
			}
			fr.jsonAssign(&sv[idx], U.Field(idx).Type(), n.vals[i], raw)
		}
	case *types.Interface:
		*addr = iface{t: fr.jsonGenericType(n), v: fr.jsonGeneric(n, raw)}
	default:
		bad()
	}
}

func (fr *frame) jsonInt(k types.BasicKind, text []value, T types.Type) value {
	if s, ok := normStr(text).(string); ok {
		if kindSigned(k) {
			v, err := strconv.ParseInt(s, 10, int(kindWidth(k)))
			if err != nil {
				panic(jsonTypeError{"json: cannot unmarshal number " + s + " into Go value of type " + T.String()})
			}
			return mkConcrete(k, uint64(v))
		}
		v, err := strconv.ParseUint(s, 10, int(kindWidth(k)))
		if err != nil {
			panic(jsonTypeError{"json: cannot unmarshal number " + s + " into Go value of type " + T.String()})
		}
		return mkConcrete(k, v)
	}
	// symbolic digits (optionally a concrete leading '-'); at most 18 digits so no overflow
	neg := false
	if c, ok := text[0].(uint8); ok && c == '-' {
		neg = true
		text = text[1:]
	}
	if len(text) == 0 || len(text) > 18 {
		fr.i.ctx.abort("engine", "symbolic JSON integer too long")
	}
	ctx := fr.i.ctx
	ctx.assumes["JSON model: symbolic bytes of a JSON number are decimal digits"] = true
	acc := mkConst(64, 0)
	for _, d := range text {
		t := byteTerm(d)
		ctx.assume(mkAnd(mkCmp(opUle, mkConst(8, '0'), t), mkCmp(opUle, t, mkConst(8, '9'))))
		acc = mkBin(opAdd, mkBin(opMul, acc, mkConst(64, 10)), mkZext(mkBin(opSub, t, mkConst(8, '0')), 64))
	}
	if neg {
		acc = mkNeg(acc)
	}
	w := kindWidth(k)
	if w < 64 {
		acc = mkExtract(acc, w-1, 0)
	}
	return mkSym(k, acc)
}

func (fr *frame) jsonGenericType(n *jnode) types.Type {
	switch n.kind {
	case jBool:
		return types.Typ[types.Bool]
	case jNum:
		return types.Typ[types.Float64]
	case jStr:
		return types.Typ[types.String]
	case jArr:
		return types.NewSlice(types.NewInterfaceType(nil, nil))
	case jObj:
		return types.NewMap(types.Typ[types.String], types.NewInterfaceType(nil, nil))
	}
	return nil
}

func (fr *frame) jsonGeneric(n *jnode, raw []value) value {
	switch n.kind {
	case jBool:
		return n.b
	case jNum:
		s, _ := normStr(n.str).(string)
		f, _ := strconv.ParseFloat(s, 64)
		return f
	case jStr:
		return normStr(n.str)
	case jArr:
		out := make([]value, len(n.arr))
		for i, e := range n.arr {
			out[i] = iface{t: fr.jsonGenericType(e), v: fr.jsonGeneric(e, raw)}
		}
		return out
	case jObj:
		m := makeMap(types.Typ[types.String], 0).(*omap)
		for i, k := range n.keys {
			m.insert(fr.i, k, iface{t: fr.jsonGenericType(n.vals[i]), v: fr.jsonGeneric(n.vals[i], raw)})
		}
		return m
	}
	return nil
}

func extJSONUnmarshal(fr *frame, args []value) (res value) {
	fr.i.noteAssumption("encoding/json.Unmarshal is an engine model: order-preserving parser, decoding by struct tag (native replay uses the real package)")
	data := bytesOf(args[0])
	target := args[1].(iface)
	pt, ok := target.t.Underlying().(*types.Pointer)
	if !ok || target.v.(*value) == nil {
		return fr.newError("json: Unmarshal(non-pointer or nil)")
	}
	n, msg := parseJSON(fr, data)
	if n == nil {
		return fr.newError("json: " + msg)
	}
	defer func() {
		if r := recover(); r != nil {
			if te, ok := r.(jsonTypeError); ok {
				res = fr.newError(te.msg)
				return
			}
			panic(r)
		}
	}()
	fr.jsonAssign(target.v.(*value), pt.Elem(), n, data)
	return nilError()
}

func init() {
	externals["encoding/json.Indent"] = func(fr *frame, args []value) value {
		// dst *bytes.Buffer, src []byte, prefix, indent string
		src := bytesOf(args[1])
		n, msg := parseJSON(fr, src)
		if n == nil {
			return fr.newError("json: " + msg)
		}
		out := src
		if s, ok := normStr(src).(string); ok {
			var buf bytes.Buffer
			if err := json.Indent(&buf, []byte(s), toString(args[2]), toString(args[3])); err == nil {
				out = strBytes(buf.String())
			}
		}
		m := fr.i.findMethod(types.NewPointer(fr.i.namedType("bytes", "Buffer")), "Write")
		call(fr.i, fr, 0, m, []value{args[0], append([]value(nil), out...)})
		return nilError()
	}
	externals["(*encoding/json.Decoder).Decode"] = func(fr *frame, args []value) value {
		// Model of the first Decode on a stream: the reader is drained, the first JSON value is
		// decoded and whatever follows it is ignored (as the real Decoder leaves it buffered);
		// input that ends inside the value is io.ErrUnexpectedEOF, other syntax errors are
		// *json.SyntaxError, an all-blank stream is io.EOF.
		d := structOf(args[0])
		data, rerr := fr.readAllIface(d[0].(iface))
		if rerr != nil {
			return rerr
		}
		end, atEnd, msg := jsonFirstValue(fr, data)
		if end < 0 {
			blank := true
			for _, c := range data {
				if b, ok := c.(uint8); !ok || !(b == ' ' || b == '\t' || b == '\n' || b == '\r') {
					blank = false
				}
			}
			if blank {
				return fr.ioEOF()
			}
			if atEnd {
				ioPkg := fr.i.prog.ImportedPackage("io")
				return *fr.i.globals[ioPkg.Var("ErrUnexpectedEOF")]
			}
			T := fr.i.namedType("encoding/json", "SyntaxError")
			sv := zero(T).(structure)
			sv[0] = msg
			var cell value = sv
			return iface{t: types.NewPointer(T), v: &cell}
		}
		return extJSONUnmarshal(fr, []value{data[:end], args[1]})
	}
	externals["encoding/json.Unmarshal"] = extJSONUnmarshal
	externals["encoding/json.Valid"] = func(fr *frame, args []value) value {
		n, _ := parseJSON(fr, bytesOf(args[0]))
		return n != nil
	}
}

// ---------------------------------------------------------------------------
// encoding/json.Marshal: concrete values are converted to native Go values of
// dynamically built types (reflect.StructOf with the original tags) and passed
// to the real encoding/json; types with a MarshalJSON method are called in the
// interpreter and spliced in as raw JSON. Symbolic parts are not supported.

type marshalFail struct{ msg string }

func (fr *frame) nativeType(T types.Type, depth int) reflect.Type {
	if depth > 12 {
		panic(marshalFail{"type too deep"})
	}
	if _, ok := T.(*types.Named); ok {
		if fr.i.findMethod(T, "MarshalJSON") != nil || fr.i.findMethod(types.NewPointer(T), "MarshalJSON") != nil {
			return reflect.TypeOf(json.RawMessage(nil))
		}
		if T.String() == "time.Time" {
			return reflect.TypeOf("")
		}
	}
	switch U := T.Underlying().(type) {
	case *types.Basic:
		switch U.Kind() {
		case types.Bool:
			return reflect.TypeOf(false)
		case types.String:
			return reflect.TypeOf("")
		case types.Int:
			return reflect.TypeOf(int(0))
		case types.Int8:
			return reflect.TypeOf(int8(0))
		case types.Int16:
			return reflect.TypeOf(int16(0))
		case types.Int32:
			return reflect.TypeOf(int32(0))
		case types.Int64:
			return reflect.TypeOf(int64(0))
		case types.Uint:
			return reflect.TypeOf(uint(0))
		case types.Uint8:
			return reflect.TypeOf(uint8(0))
		case types.Uint16:
			return reflect.TypeOf(uint16(0))
		case types.Uint32:
			return reflect.TypeOf(uint32(0))
		case types.Uint64:
			return reflect.TypeOf(uint64(0))
		case types.Float32:
			return reflect.TypeOf(float32(0))
		case types.Float64:
			return reflect.TypeOf(float64(0))
		}
	case *types.Pointer:
		return reflect.PointerTo(fr.nativeType(U.Elem(), depth+1))
	case *types.Slice:
		return reflect.SliceOf(fr.nativeType(U.Elem(), depth+1))
	case *types.Array:
		return reflect.ArrayOf(int(U.Len()), fr.nativeType(U.Elem(), depth+1))
	case *types.Map:
		return reflect.MapOf(fr.nativeType(U.Key(), depth+1), fr.nativeType(U.Elem(), depth+1))
	case *types.Interface:
		return reflect.TypeOf((*interface{})(nil)).Elem()
	case *types.Struct:
		var fs []reflect.StructField
		for i := 0; i < U.NumFields(); i++ {
			f := U.Field(i)
			if !f.Exported() {
				continue
			}
			fs = append(fs, reflect.StructField{Name: f.Name(), Type: fr.nativeType(f.Type(), depth+1), Tag: reflect.StructTag(U.Tag(i)), Anonymous: false})
		}
		return reflect.StructOf(fs)
	}
	panic(marshalFail{"unsupported type for json.Marshal model: " + T.String()})
}

func (fr *frame) nativeValue(v value, T types.Type, depth int) reflect.Value {
	rt := fr.nativeType(T, depth)
	out := reflect.New(rt).Elem()
	if _, ok := T.(*types.Named); ok {
		var m *ssa.Function
		recv := v
		if m = fr.i.findMethod(T, "MarshalJSON"); m == nil {
			if m = fr.i.findMethod(types.NewPointer(T), "MarshalJSON"); m != nil {
				cell := v
				recv = &cell
			}
		}
		if m != nil {
			res := call(fr.i, fr, 0, m, []value{recv}).(tuple)
			if e := res[1].(iface); e.t != nil {
				panic(marshalFail{fr.i.errorString(e)})
			}
			out.SetBytes(fr.concBytes(res[0].([]value)))
			return out
		}
		if T.String() == "time.Time" {
			out.SetString("2001-01-01T00:00:00Z")
			return out
		}
	}
	switch U := T.Underlying().(type) {
	case *types.Basic:
		switch x := v.(type) {
		case bool:
			out.SetBool(x)
		case string:
			out.SetString(x)
		case sstring:
			out.SetString(string(fr.concBytes(x.b)))
		case float32:
			out.SetFloat(float64(x))
		case float64:
			out.SetFloat(x)
		default:
			c := fr.concValue(v)
			if kindSigned(U.Kind()) {
				out.SetInt(asInt64(c))
			} else {
				_, bits, _ := concKind(c)
				out.SetUint(bits)
			}
		}
	case *types.Pointer:
		p, _ := v.(*value)
		if p == nil {
			return out
		}
		e := fr.nativeValue(load(U.Elem(), p), U.Elem(), depth+1)
		pv := reflect.New(e.Type())
		pv.Elem().Set(e)
		out.Set(pv)
	case *types.Slice:
		s, _ := v.([]value)
		if s == nil {
			return out
		}
		out.Set(reflect.MakeSlice(rt, len(s), len(s)))
		for i, e := range s {
			out.Index(i).Set(fr.nativeValue(e, U.Elem(), depth+1))
		}
	case *types.Array:
		for i, e := range v.(array) {
			out.Index(i).Set(fr.nativeValue(e, U.Elem(), depth+1))
		}
	case *types.Map:
		m, _ := v.(*omap)
		if m == nil {
			return out
		}
		out.Set(reflect.MakeMap(rt))
		for i, k := range m.keys {
			if m.live[i] {
				out.SetMapIndex(fr.nativeValue(k, U.Key(), depth+1), fr.nativeValue(m.vals[i], U.Elem(), depth+1))
			}
		}
	case *types.Interface:
		iv := v.(iface)
		if iv.t == nil {
			return out
		}
		out.Set(fr.nativeValue(iv.v, iv.t, depth+1))
	case *types.Struct:
		sv := v.(structure)
		j := 0
		for i := 0; i < U.NumFields(); i++ {
			if !U.Field(i).Exported() {
				continue
			}
			out.Field(j).Set(fr.nativeValue(sv[i], U.Field(i).Type(), depth+1))
			j++
		}
	}
	return out
}

func (fr *frame) concBytes(b []value) []byte {
	r := make([]byte, len(b))
	for i, e := range b {
		r[i] = fr.concValue(e).(uint8)
	}
	return r
}

func extJSONMarshal(fr *frame, args []value) (res value) {
	fr.i.noteAssumption("encoding/json.Marshal runs the real encoder on values rebuilt natively from the interpreter state (symbolic parts are made concrete first)")
	defer func() {
		if r := recover(); r != nil {
			if mf, ok := r.(marshalFail); ok {
				res = tuple{[]value(nil), fr.newError("json: " + mf.msg)}
				return
			}
			panic(r)
		}
	}()
	in := args[0].(iface)
	if in.t == nil {
		return tuple{strBytes("null"), nilError()}
	}
	nv := fr.nativeValue(in.v, in.t, 0)
	b, err := json.Marshal(nv.Interface())
	if err != nil {
		return tuple{[]value(nil), fr.newError(err.Error())}
	}
	return tuple{strBytes(string(b)), nilError()}
}

func init() {
	externals["encoding/json.Marshal"] = extJSONMarshal
	// (*Encoder).Encode(v): Marshal, a newline, one Write to the encoder's writer (HTML escaping
	// on, no indentation: the defaults)
	externals["(*encoding/json.Encoder).Encode"] = func(fr *frame, args []value) value {
		r := extJSONMarshal(fr, args[1:2]).(tuple)
		if e, ok := r[1].(iface); ok && e.t != nil {
			return r[1]
		}
		enc := (*args[0].(*value)).(structure)
		w := enc[0].(iface)
		out := append(append([]value(nil), r[0].([]value)...), uint8('\n'))
		wr := fr.callMethod(w, "Write", value(out))
		if t, ok := wr.(tuple); ok && len(t) == 2 {
			return t[1]
		}
		return nilError()
	}
	externals["encoding/json.MarshalIndent"] = func(fr *frame, args []value) value {
		r := extJSONMarshal(fr, args[:1]).(tuple)
		return r
	}
}
