package interp

// Concrete codec model for gzip / flate / snappy: a deterministic, injective
// family of mutually incompatible "compressions". Enc_c(P) = tag_c ++ P ++ ^tag_c;
// Dec_c accepts exactly the strings of that shape. Payload bytes (possibly
// symbolic) pass through untouched (one exception, as in the real package: the snappy stream
// format of nothing is nothing). The real codecs are used in native replay.

import (
	"fmt"
	"go/types"
)

var codecTags = map[string]uint8{"gzip": 0x1f, "deflate": 0x78, "snappy-stream": 0xff, "snappy-block": 0x53}

type codecState struct {
	codec string
	plain []value // reader: remaining plain bytes; writer: accumulated plain bytes
	dst   iface   // writer destination
	err   bool    // reader: malformed input
	done  bool
}

func codecEnc(codec string, plain []value) []value {
	if codec == "snappy-stream" && len(plain) == 0 {
		// the real stream writer emits nothing (not even the stream identifier) when nothing
		// was written, and the stream reader reads an empty input as an empty stream
		return []value{}
	}
	t := codecTags[codec]
	r := make([]value, 0, len(plain)+2)
	r = append(r, t)
	r = append(r, plain...)
	r = append(r, ^t)
	return r
}

// codecDec returns the plain bytes and whether enc is well formed (may fork on symbolic bytes).
func (fr *frame) codecDec(codec string, enc []value) ([]value, bool) {
	t := codecTags[codec]
	if codec == "snappy-stream" && len(enc) == 0 {
		return []value{}, true
	}
	if len(enc) < 2 {
		return nil, false
	}
	if !byteEq(fr, enc[0], t) || !byteEq(fr, enc[len(enc)-1], ^t) {
		return nil, false
	}
	return append([]value(nil), enc[1:len(enc)-1]...), true
}

func (fr *frame) newError(msg string) value {
	errorsPkg := fr.i.prog.ImportedPackage("errors")
	return call(fr.i, fr, 0, errorsPkg.Func("New"), []value{msg})
}

func (fr *frame) ioEOF() value {
	ioPkg := fr.i.prog.ImportedPackage("io")
	return *fr.i.globals[ioPkg.Var("EOF")]
}

// readAllIface drains an io.Reader held in an interface value.
func (fr *frame) readAllIface(r iface) ([]value, value) {
	m := fr.i.findMethod(r.t, "Read")
	if m == nil {
		panic("readAllIface: no Read method on " + r.t.String())
	}
	var out []value
	for iter := 0; iter < 10000; iter++ {
		buf := make([]value, 512)
		for i := range buf {
			buf[i] = uint8(0)
		}
		res := call(fr.i, fr, 0, m, []value{r.v, buf}).(tuple)
		n := int(fr.concInt(res[0]))
		out = append(out, buf[:n]...)
		if e := res[1].(iface); e.t != nil {
			if fr.condBool(equalsV(e.t, e, fr.ioEOF())) {
				return out, nil
			}
			return out, e
		}
	}
	panic("readAllIface: reader does not terminate")
}

func (fr *frame) writeIface(w iface, data []value) value {
	m := fr.i.findMethod(w.t, "Write")
	res := call(fr.i, fr, 0, m, []value{w.v, data}).(tuple)
	return res[1]
}

func (i *interpreter) namedType(pkg, name string) types.Type {
	p := i.prog.ImportedPackage(pkg)
	if p == nil {
		panic("package not loaded: " + pkg)
	}
	t := p.Type(name)
	if t == nil {
		panic("type not found: " + pkg + "." + name)
	}
	return t.Type()
}

func (fr *frame) newCodecObj(pkg, typ string, st *codecState) *value {
	cell := zero(fr.i.namedType(pkg, typ))
	p := &cell
	fr.i.ctx.codecs[p] = st
	return p
}

func (fr *frame) codecOf(p value) *codecState {
	st := fr.i.ctx.codecs[p.(*value)]
	if st == nil {
		panic("codec object without state")
	}
	return st
}

func nilError() value { return iface{} }

func codecRead(fr *frame, args []value) value {
	st := fr.codecOf(args[0])
	p := args[1].([]value)
	if st.err {
		return tuple{0, fr.newError("codec: invalid compressed data")}
	}
	if len(st.plain) == 0 {
		return tuple{0, fr.ioEOF()}
	}
	n := copy(p, st.plain)
	st.plain = st.plain[n:]
	return tuple{n, nilError()}
}

func codecWrite(fr *frame, args []value) value {
	st := fr.codecOf(args[0])
	p := args[1].([]value)
	st.plain = append(st.plain, p...)
	return tuple{len(p), nilError()}
}

func codecClose(fr *frame, args []value) value {
	st := fr.codecOf(args[0])
	if st.done {
		return nilError()
	}
	st.done = true
	if st.dst.t != nil {
		return fr.writeIface(st.dst, codecEnc(st.codec, st.plain))
	}
	return nilError()
}

func init() {
	reader := func(codec, pkg, typ string, eager bool) externalFn {
		return func(fr *frame, args []value) value {
			fr.i.noteAssumption("codec model: " + codec + " is modelled as the injective framing tag++payload++^tag (real codec in native replay)")
			st := &codecState{codec: codec}
			data, rerr := fr.readAllIface(args[0].(iface))
			plain, ok := fr.codecDec(codec, data)
			if rerr != nil || !ok {
				st.err = true
			} else {
				st.plain = plain
			}
			obj := fr.newCodecObj(pkg, typ, st)
			if eager {
				// gzip.NewReader reports a bad header immediately
				if st.err {
					return tuple{(*value)(nil), fr.newError("gzip: invalid header")}
				}
				return tuple{obj, nilError()}
			}
			return obj
		}
	}
	externals["compress/gzip.NewReader"] = reader("gzip", "compress/gzip", "Reader", true)
	externals["(*compress/gzip.Reader).Read"] = codecRead
	externals["(*compress/gzip.Reader).Close"] = func(fr *frame, args []value) value { return nilError() }
	externals["compress/gzip.NewWriter"] = func(fr *frame, args []value) value {
		return fr.newCodecObj("compress/gzip", "Writer", &codecState{codec: "gzip", dst: args[0].(iface)})
	}
	externals["(*compress/gzip.Writer).Write"] = codecWrite
	externals["(*compress/gzip.Writer).Close"] = codecClose
	externals["(*compress/gzip.Writer).Flush"] = func(fr *frame, args []value) value { return nilError() }

	externals["compress/flate.NewReader"] = func(fr *frame, args []value) value {
		obj := reader("deflate", "compress/flate", "decompressor", false)(fr, args)
		return iface{t: types.NewPointer(fr.i.namedType("compress/flate", "decompressor")), v: obj}
	}
	externals["(*compress/flate.decompressor).Read"] = codecRead
	externals["(*compress/flate.decompressor).Close"] = func(fr *frame, args []value) value { return nilError() }
	externals["compress/flate.NewWriter"] = func(fr *frame, args []value) value {
		return tuple{fr.newCodecObj("compress/flate", "Writer", &codecState{codec: "deflate", dst: args[0].(iface)}), nilError()}
	}
	externals["(*compress/flate.Writer).Write"] = codecWrite
	externals["(*compress/flate.Writer).Close"] = codecClose
	externals["(*compress/flate.Writer).Flush"] = func(fr *frame, args []value) value { return nilError() }

	externals["github.com/golang/snappy.NewReader"] = reader("snappy-stream", "github.com/golang/snappy", "Reader", false)
	externals["(*github.com/golang/snappy.Reader).Read"] = codecRead
	externals["github.com/golang/snappy.NewBufferedWriter"] = func(fr *frame, args []value) value {
		return fr.newCodecObj("github.com/golang/snappy", "Writer", &codecState{codec: "snappy-stream", dst: args[0].(iface)})
	}
	externals["github.com/golang/snappy.NewWriter"] = externals["github.com/golang/snappy.NewBufferedWriter"]
	externals["(*github.com/golang/snappy.Writer).Write"] = codecWrite
	externals["(*github.com/golang/snappy.Writer).Close"] = codecClose
	externals["(*github.com/golang/snappy.Writer).Flush"] = func(fr *frame, args []value) value { return nilError() }
	externals["github.com/golang/snappy.Encode"] = func(fr *frame, args []value) value {
		return codecEnc("snappy-block", args[1].([]value))
	}
	externals["github.com/golang/snappy.Decode"] = func(fr *frame, args []value) value {
		plain, ok := fr.codecDec("snappy-block", args[1].([]value))
		if !ok {
			return tuple{[]value(nil), fr.newError("snappy: corrupt input")}
		}
		return tuple{plain, nilError()}
	}

	// harness-side access to the same model
	externals[vfPkg+".Enc"] = func(fr *frame, args []value) value {
		return codecEnc(argStr(args[0]), args[1].([]value))
	}
	externals[vfPkg+".Dec"] = func(fr *frame, args []value) value {
		plain, ok := fr.codecDec(argStr(args[0]), args[1].([]value))
		if !ok {
			return tuple{[]value(nil), false}
		}
		if plain == nil {
			plain = []value{}
		}
		return tuple{plain, true}
	}
}

func (i *interpreter) noteAssumption(s string) {
	if i.ctx != nil {
		i.ctx.assumes[s] = true
	}
}

var _ = fmt.Sprint
