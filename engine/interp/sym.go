package interp

// Symbolic scalar values and symbolic strings.

import (
	"fmt"
	"go/token"
	"go/types"
)

// symv is a symbolic value of a Go basic type (bool or integer).
type symv struct {
	k types.BasicKind
	t *Term
}

// sstring is a string whose bytes may be symbolic (each element is uint8 or symv{Uint8}).
// Its length is concrete.
type sstring struct {
	b []value
}

func kindWidth(k types.BasicKind) uint8 {
	switch k {
	case types.Bool, types.UntypedBool:
		return 0
	case types.Int8, types.Uint8:
		return 8
	case types.Int16, types.Uint16:
		return 16
	case types.Int32, types.Uint32, types.UntypedRune:
		return 32
	case types.Int, types.Uint, types.Int64, types.Uint64, types.Uintptr, types.UntypedInt:
		return 64
	}
	panic(fmt.Sprintf("kindWidth: unsupported kind %v", k))
}

func kindSigned(k types.BasicKind) bool {
	switch k {
	case types.Int, types.Int8, types.Int16, types.Int32, types.Int64, types.UntypedInt, types.UntypedRune:
		return true
	}
	return false
}

// concKind returns the basic kind of a concrete scalar value.
func concKind(x value) (types.BasicKind, uint64, bool) {
	switch x := x.(type) {
	case bool:
		return types.Bool, b2u(x), true
	case int:
		return types.Int, uint64(x), true
	case int8:
		return types.Int8, uint64(x), true
	case int16:
		return types.Int16, uint64(x), true
	case int32:
		return types.Int32, uint64(x), true
	case int64:
		return types.Int64, uint64(x), true
	case uint:
		return types.Uint, uint64(x), true
	case uint8:
		return types.Uint8, uint64(x), true
	case uint16:
		return types.Uint16, uint64(x), true
	case uint32:
		return types.Uint32, uint64(x), true
	case uint64:
		return types.Uint64, x, true
	case uintptr:
		return types.Uintptr, uint64(x), true
	}
	return 0, 0, false
}

// mkConcrete builds the concrete Go value of kind k from bits.
func mkConcrete(k types.BasicKind, bits uint64) value {
	switch k {
	case types.Bool:
		return bits&1 == 1
	case types.Int:
		return int(bits)
	case types.Int8:
		return int8(bits)
	case types.Int16:
		return int16(bits)
	case types.Int32:
		return int32(bits)
	case types.Int64:
		return int64(bits)
	case types.Uint:
		return uint(bits)
	case types.Uint8:
		return uint8(bits)
	case types.Uint16:
		return uint16(bits)
	case types.Uint32:
		return uint32(bits)
	case types.Uint64:
		return uint64(bits)
	case types.Uintptr:
		return uintptr(bits)
	}
	panic(fmt.Sprintf("mkConcrete: unsupported kind %v", k))
}

// termOf returns the term and kind for a scalar value (concrete or symbolic).
func termOf(x value) (*Term, types.BasicKind) {
	if s, ok := x.(symv); ok {
		return s.t, s.k
	}
	k, bits, ok := concKind(x)
	if !ok {
		panic(fmt.Sprintf("termOf: not a scalar: %T", x))
	}
	return mkConst(kindWidth(k), bits), k
}

// mkSym wraps a term as a value, folding constants back to concrete values.
func mkSym(k types.BasicKind, t *Term) value {
	if t.isConst() {
		return mkConcrete(k, t.k)
	}
	return symv{k, t}
}

func isSym(x value) bool { _, ok := x.(symv); return ok }

// hasSym reports whether a value contains symbolic parts (shallow for pointers).
func hasSym(x value) bool {
	switch x := x.(type) {
	case symv, sstring:
		return true
	case structure:
		for _, e := range x {
			if hasSym(e) {
				return true
			}
		}
	case array:
		for _, e := range x {
			if hasSym(e) {
				return true
			}
		}
	case iface:
		return hasSym(x.v)
	}
	return false
}

func symBinop(op token.Token, x, y value) value {
	// Shifts: operand kinds may differ.
	if op == token.SHL || op == token.SHR {
		xt, xk := termOf(x)
		yt, yk := termOf(y)
		w := xt.w
		// Go: shift count is unsigned or (since 1.13) signed non-negative; negative panics
		// (checked by the caller). Counts >= width give 0 / sign fill.
		var cnt *Term
		var big *Term = termFalse
		if yt.w > w {
			big = mkCmp(opUle, mkConst(yt.w, uint64(w)), yt)
			cnt = mkExtract(yt, w-1, 0)
		} else {
			cnt = mkZext(yt, w)
		}
		_ = yk
		var r *Term
		switch {
		case op == token.SHL:
			r = mkIte(big, mkConst(w, 0), mkBin(opShl, xt, cnt))
		case kindSigned(xk):
			r = mkIte(big, mkBin(opAShr, xt, mkConst(w, uint64(w-1))), mkBin(opAShr, xt, cnt))
		default:
			r = mkIte(big, mkConst(w, 0), mkBin(opLShr, xt, cnt))
		}
		return mkSym(xk, r)
	}
	xt, k := termOf(x)
	yt, _ := termOf(y)
	signed := kindSigned(k)
	switch op {
	case token.ADD:
		return mkSym(k, mkBin(opAdd, xt, yt))
	case token.SUB:
		return mkSym(k, mkBin(opSub, xt, yt))
	case token.MUL:
		return mkSym(k, mkBin(opMul, xt, yt))
	case token.QUO:
		if signed {
			return mkSym(k, mkBin(opSDiv, xt, yt))
		}
		return mkSym(k, mkBin(opUDiv, xt, yt))
	case token.REM:
		if signed {
			return mkSym(k, mkBin(opSRem, xt, yt))
		}
		return mkSym(k, mkBin(opURem, xt, yt))
	case token.AND:
		if k == types.Bool {
			return mkSym(k, mkAnd(xt, yt))
		}
		return mkSym(k, mkBin(opAnd, xt, yt))
	case token.OR:
		if k == types.Bool {
			return mkSym(k, mkOr(xt, yt))
		}
		return mkSym(k, mkBin(opOr, xt, yt))
	case token.XOR:
		return mkSym(k, mkBin(opXor, xt, yt))
	case token.AND_NOT:
		return mkSym(k, mkBin(opAnd, xt, mkBvNot(yt)))
	case token.EQL:
		return mkSym(types.Bool, mkCmp(opEq, xt, yt))
	case token.NEQ:
		return mkSym(types.Bool, mkNot(mkCmp(opEq, xt, yt)))
	case token.LSS:
		if signed {
			return mkSym(types.Bool, mkCmp(opSlt, xt, yt))
		}
		return mkSym(types.Bool, mkCmp(opUlt, xt, yt))
	case token.LEQ:
		if signed {
			return mkSym(types.Bool, mkCmp(opSle, xt, yt))
		}
		return mkSym(types.Bool, mkCmp(opUle, xt, yt))
	case token.GTR:
		if signed {
			return mkSym(types.Bool, mkCmp(opSlt, yt, xt))
		}
		return mkSym(types.Bool, mkCmp(opUlt, yt, xt))
	case token.GEQ:
		if signed {
			return mkSym(types.Bool, mkCmp(opSle, yt, xt))
		}
		return mkSym(types.Bool, mkCmp(opUle, yt, xt))
	}
	panic(fmt.Sprintf("symBinop: unsupported op %s", op))
}

func symUnop(op token.Token, x symv) value {
	switch op {
	case token.NOT:
		return mkSym(types.Bool, mkNot(x.t))
	case token.SUB:
		return mkSym(x.k, mkNeg(x.t))
	case token.XOR:
		return mkSym(x.k, mkBvNot(x.t))
	}
	panic(fmt.Sprintf("symUnop: unsupported op %s", op))
}

// symConv converts a symbolic integer to another integer kind.
func symConv(dst types.BasicKind, x symv) value {
	w := kindWidth(dst)
	if w == 0 {
		panic("symConv to bool")
	}
	var t *Term
	switch {
	case w <= x.t.w:
		t = mkExtract(x.t, w-1, 0)
	case kindSigned(x.k):
		t = mkSext(x.t, w)
	default:
		t = mkZext(x.t, w)
	}
	return mkSym(dst, t)
}

// ---------------------------------------------------------------------------
// Strings

// normStr turns a byte list into a native string when fully concrete.
func normStr(b []value) value {
	for _, e := range b {
		if _, ok := e.(uint8); !ok {
			return sstring{b}
		}
	}
	bs := make([]byte, len(b))
	for i, e := range b {
		bs[i] = e.(uint8)
	}
	return string(bs)
}

// strBytes returns the byte list of a string value (native or symbolic). The
// result must not be modified.
func strBytes(x value) []value {
	switch x := x.(type) {
	case string:
		r := make([]value, len(x))
		for i := 0; i < len(x); i++ {
			r[i] = x[i]
		}
		return r
	case sstring:
		return x.b
	}
	panic(fmt.Sprintf("strBytes: not a string: %T", x))
}

func isStr(x value) bool {
	switch x.(type) {
	case string, sstring:
		return true
	}
	return false
}

func strLen(x value) int {
	switch x := x.(type) {
	case string:
		return len(x)
	case sstring:
		return len(x.b)
	}
	panic("strLen")
}

func byteTerm(x value) *Term {
	switch x := x.(type) {
	case uint8:
		return mkConst(8, uint64(x))
	case symv:
		return x.t
	}
	panic(fmt.Sprintf("byteTerm: %T", x))
}

// strEqTerm returns the term for x == y over strings.
func strEqTerm(x, y value) *Term {
	xb, yb := strBytes(x), strBytes(y)
	if len(xb) != len(yb) {
		return termFalse
	}
	r := termTrue
	for i := len(xb) - 1; i >= 0; i-- {
		r = mkAnd(mkCmp(opEq, byteTerm(xb[i]), byteTerm(yb[i])), r)
		if r.isFalse() {
			return r
		}
	}
	return r
}

// strLtTerm returns the term for x < y (lexicographic, bytewise).
func strLtTerm(x, y value) *Term {
	xb, yb := strBytes(x), strBytes(y)
	n := len(xb)
	if len(yb) < n {
		n = len(yb)
	}
	// result if all n bytes equal:
	r := mkBool(len(xb) < len(yb))
	for i := n - 1; i >= 0; i-- {
		a, b := byteTerm(xb[i]), byteTerm(yb[i])
		r = mkOr(mkCmp(opUlt, a, b), mkAnd(mkCmp(opEq, a, b), r))
	}
	return r
}

func strBinop(op token.Token, x, y value) value {
	switch op {
	case token.ADD:
		xb, yb := strBytes(x), strBytes(y)
		r := make([]value, 0, len(xb)+len(yb))
		r = append(r, xb...)
		r = append(r, yb...)
		return normStr(r)
	case token.EQL:
		return mkSym(types.Bool, strEqTerm(x, y))
	case token.NEQ:
		return mkSym(types.Bool, mkNot(strEqTerm(x, y)))
	case token.LSS:
		return mkSym(types.Bool, strLtTerm(x, y))
	case token.GTR:
		return mkSym(types.Bool, strLtTerm(y, x))
	case token.LEQ:
		return mkSym(types.Bool, mkNot(strLtTerm(y, x)))
	case token.GEQ:
		return mkSym(types.Bool, mkNot(strLtTerm(x, y)))
	}
	panic(fmt.Sprintf("strBinop: unsupported op %s", op))
}

// equalsV is Go's == for type t, returning bool or a symbolic bool.
func equalsV(t types.Type, x, y value) value {
	if !hasSym(x) && !hasSym(y) {
		return equals(t, x, y)
	}
	return mkSym(types.Bool, eqTerm(t, x, y))
}

func eqTerm(t types.Type, x, y value) *Term {
	switch xv := x.(type) {
	case symv:
		yt, _ := termOf(y)
		return mkCmp(opEq, xv.t, yt)
	case sstring, string:
		return strEqTerm(x, y)
	case structure:
		yv := y.(structure)
		r := termTrue
		tStruct := t.Underlying().(*types.Struct)
		for i := range xv {
			f := tStruct.Field(i)
			if f.Name() == "_" {
				continue
			}
			r = mkAnd(r, eqTerm(f.Type(), xv[i], yv[i]))
		}
		return r
	case array:
		yv := y.(array)
		r := termTrue
		tElt := t.Underlying().(*types.Array).Elem()
		for i := range xv {
			r = mkAnd(r, eqTerm(tElt, xv[i], yv[i]))
		}
		return r
	case iface:
		yv := y.(iface)
		if !sameType(xv.t, yv.t) {
			return termFalse
		}
		if xv.t == nil {
			return termTrue
		}
		return eqTerm(xv.t, xv.v, yv.v)
	}
	if _, ok := y.(symv); ok {
		xt, _ := termOf(x)
		return mkCmp(opEq, xt, y.(symv).t)
	}
	return mkBool(equals(t, x, y))
}
